#!/bin/bash
# usage: tools_mut.sh <patch.diff> <fqn> [modules]  -- verify fqn on a scratch copy with the patch applied
set -e
P=$(realpath "$1")
D=$(mktemp -d /tmp/mut.XXXX)
cp -r /repo/usim $D/
( cd $D && patch -p1 -s < "$P" )
shift
for f in "$@"; do PYVC_REPO=$D python3-vt -m pyvc.driver $f 2>&1 | grep -v "^        model" | cut -c1-300 | grep -v "^        path" | head -12; done
rm -rf $D
