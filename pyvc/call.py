"""Calls: repo functions (contract or inlined), class instantiation, builtins, list/dict methods."""
import ast
import z3
from .core import *   # noqa
from .base import Outcome, N_, DictLit, DictFld, LOOP, HIBERNATE, INF
from .expr import EmptyList, OptList, GenExp, StarItem, CoroFrame
from .repo import BUILTIN_EXC, ClassInfo, FuncInfo
from .state import Frame

MAX_INLINE_DEPTH = 12


class CallMixin:
    # ------------------------------------------------------------------ call expression
    def ev_Call(self, e, st, k):
        r = self.ev_spec_call(e, st, k)
        if r is not None:
            return r
        # super() without arguments
        if isinstance(e.func, ast.Name) and e.func.id == "super" and not e.args:
            fr = st.frame
            self_val = fr.locals.get("self", fr.locals.get("cls"))
            if self_val is None and fr.closure:
                self_val = fr.closure.get("self")
            if fr.defcls is None:
                raise Unsupported("super() outside a method")
            return k(SuperVal(self_val, fr.defcls), st)
        if isinstance(e.func, ast.Name) and e.func.id == "super" and len(e.args) == 2:
            return self.ev_list(e.args, st, lambda vs, s: k(SuperVal(vs[1], vs[0].info), s))

        def with_func(f, s):
            def with_args(items, s2):
                args = []
                for it in items:
                    if isinstance(it, StarItem):
                        args.extend(self.unpack_star(s2, it.v))
                    else:
                        args.append(it)

                def with_kw(kwvals, s3):
                    kwargs = {}
                    for kw, v in zip(e.keywords, kwvals):
                        if kw.arg is None:
                            if isinstance(v, DictLit):
                                kwargs.update(v.items)
                            elif isinstance(v, KwArgs):
                                kwargs.update(v.items)
                            else:
                                raise Unsupported("**kwargs of %r" % (v,))
                        else:
                            kwargs[kw.arg] = v
                    return self.call_value(f, args, kwargs, s3, k, node=e)
                return self.ev_list([kw.value for kw in e.keywords], s2, with_kw)
            def materialise(items, s2):
                # f(*(elt for x in L)): build the list first (the element expression may have effects)
                for idx, it in enumerate(items):
                    if isinstance(it, StarItem) and isinstance(it.v, GenExp):
                        return self.comp_to_list(it.v, s2, lambda lv, s3, idx=idx: materialise(
                            items[:idx] + [StarItem(lv)] + items[idx + 1:], s3))
                return with_args(items, s2)
            return self.ev_starred_seq(e.args, s, materialise)
        return self.ev(e.func, st, with_func)

    def unpack_star(self, st, v):
        if isinstance(v, PyTup):
            return list(v.items)
        if isinstance(v, EmptyList):
            return []
        if isinstance(v, Val) and v.ty[0] == "tup":
            return [tup_get(v, i) for i in range(len(v.ty[1]))]
        if isinstance(v, (Cell, FldList, LVal)):
            return [StarList(self.get_list(st, v))]
        if isinstance(v, GenExp):
            res = []
            self.comp_to_list(v, st, lambda lv, s: res.append(lv) or [])
            if len(res) == 1:
                return [StarList(self.get_list(st, res[0]))]
        if isinstance(v, Val) and v.ty[0] == "ref" and v.ty[1] is None:
            # an opaque tuple (e.g. a stored *token): unknown content
            lv = LVal(ANY, fresh("star_a", z3.ArraySort(z3.IntSort(), RefS)), fresh("star_n", z3.IntSort()), "tuple")
            st.assume(lv.n >= 0)
            return [StarList(lv)]
        raise Unsupported("star-unpacking of %r" % (v,))

    def call_value(self, f, args, kwargs, st, k, node=None):
        if isinstance(f, FuncVal):
            if f.kind == "repo":
                a = list(args)
                if f.self_val is not None:
                    a = [f.self_val] + a
                self._direct_call = (f.extra == "direct")
                try:
                    return self.call_repo(f.info, a, kwargs, st, k, self_val=f.self_val)
                finally:
                    self._direct_call = False
            if f.kind == "virtual":
                # dynamic dispatch: the receiver's dynamic class may be a repo subclass that overrides the method
                obj = f.self_val

                def dispatch(i, s):
                    if i == len(f.extra):
                        return self.call_repo(f.info, [obj] + list(args), kwargs, s, k, self_val=obj)
                    sub = f.extra[i]
                    narrowed = Val(("ref", sub.name) + tuple(obj.ty[2:]), obj.t)
                    def as_sub(s2, sub=sub, narrowed=narrowed):
                        # the receiver is now known to be an instance of `sub`: its class invariants (in scope) hold for it
                        # at the last consistent point like those of any other object that is looked at
                        self.touch(s2, narrowed, guard=True)
                        return self.call_repo(sub.methods[f.name], [narrowed] + list(args), kwargs, s2, k, self_val=narrowed)
                    return self.split(s, subclass(cls_of(obj.t), cls_const(sub.name)), as_sub,
                                      lambda s2: dispatch(i + 1, s2), label="dyn:%s" % sub.name)
                return dispatch(0, st)
            if f.kind == "builtin":
                return self.call_builtin(f.name, args, kwargs, st, k, f)
            if f.kind == "bound_builtin":
                return self.call_bound_builtin(f, args, kwargs, st, k)
            if f.kind == "lambda":
                return self.call_lambda(f, args, kwargs, st, k)
            if f.kind == "closure":
                info, env = f.info, f.extra
                return self.call_repo(info, list(args), kwargs, st, k, closure=env)
            if f.kind == "abstract":
                return self.call_method(f.self_val, f.name, args, kwargs, st, k)
            if f.kind == "specfunc":
                return self.call_specfunc(f.name, args, st, k)
            if f.kind == "specrec":
                return self.call_specrec(f.name, args, st, k)
        if isinstance(f, ClsVal):
            return self.instantiate(f, args, kwargs, st, k)
        if isinstance(f, Val) and f.ty[0] == "ref":
            if f.ty[1] == "type" or f.ty[1] is None:
                return self.call_opaque(f, args, kwargs, st, k)
            return self.call_method(f, "__call__", args, kwargs, st, k)
        raise Unsupported("call of %r" % (f,))

    def call_lambda(self, f, args, kwargs, st, k):
        node = f.info
        env, module, defcls = f.extra
        fr = Frame("<lambda>", module, defcls, closure=env, spec=st.frame.spec)
        params = [a.arg for a in node.args.args]
        if len(args) != len(params):
            raise Unsupported("lambda arity")
        for p, a in zip(params, args):
            fr.locals[p] = a
        nf = len(st.frames)
        st.frames.append(fr)

        def done(v, s):
            s.frames.pop()
            return k(v, s)
        return self.trim_frames(self.ev(node.body, st, done), nf)

    def trim_frames(self, outs, nf):
        """exceptions raised inside a pushed scratch frame leave it behind: drop it"""
        for o, s in outs:
            if o.kind == "X" and len(s.frames) > nf:
                del s.frames[nf:]
        return outs

    def call_method(self, obj, name, args, kwargs, st, k):
        cn = obj.ty[1]
        ac = self.reg.contracts.get("abstract:%s.%s" % (cn, name))
        if ac is not None:
            bound = dict(zip(["self"] + ac.argnames, [obj] + list(args)))
            bound.update(kwargs)
            return self.apply_contract(ac, AbstractInfo(cn, name), bound, st, k)
        m = self.find_repo_method(cn, name)
        if m is None:
            raise Unsupported("method %s of class %s" % (name, cn))
        return self.call_repo(m, [obj] + list(args), kwargs, st, k, self_val=obj)

    # ------------------------------------------------------------------ repo functions
    def bind_params(self, info, args, kwargs, st, closure=None):
        """python argument binding -> dict name -> value (defaults evaluated in the defining module)"""
        a = info.node.args
        params = [p.arg for p in a.posonlyargs + a.args]
        bound = {}
        args = list(args)
        if any(isinstance(x, StarList) for x in args):
            # f(x, *lst): only supported into *varargs
            pass
        n = min(len(params), len(args))
        for p, v in zip(params[:n], args[:n]):
            if isinstance(v, StarList):
                raise Unsupported("list star-argument bound to positional parameter %s" % p)
            bound[p] = v
        rest = args[n:]
        if a.vararg is not None:
            if len(rest) == 1 and isinstance(rest[0], StarList):
                bound[a.vararg.arg] = rest[0].lv
            elif any(isinstance(x, StarList) for x in rest):
                lv = None
                for x in rest:
                    piece = x.lv if isinstance(x, StarList) else self.as_lval(st, PyTup([x]))
                    lv = piece if lv is None else self.list_concat(lv, piece)
                bound[a.vararg.arg] = lv
            else:
                bound[a.vararg.arg] = PyTup(rest)
        elif rest:
            raise Unsupported("too many positional arguments for %s" % info.fqn)
        kwonly = [p.arg for p in a.kwonlyargs]
        extra_kw = {}
        for name, v in kwargs.items():
            if name in params or name in kwonly:
                if name in bound:
                    raise Unsupported("duplicate argument %s" % name)
                bound[name] = v
            else:
                extra_kw[name] = v
        if a.kwarg is not None:
            bound[a.kwarg.arg] = KwArgs(extra_kw)
        elif extra_kw:
            raise Unsupported("unexpected keyword arguments %s for %s" % (sorted(extra_kw), info.fqn))
        # defaults
        pos_defaults = dict(zip(params[len(params) - len(a.defaults):], a.defaults)) if a.defaults else {}
        kw_defaults = {p: d for p, d in zip(kwonly, a.kw_defaults) if d is not None}
        for p in params + kwonly:
            if p not in bound:
                d = pos_defaults.get(p, kw_defaults.get(p))
                if d is None:
                    raise Unsupported("missing argument %s for %s" % (p, info.fqn))
                bound[p] = self.eval_default(info, d, st, closure)
        return bound

    def eval_default(self, info, d, st, closure):
        fr = Frame("<defaults of %s>" % info.fqn, info.module, closure=closure)
        st.frames.append(fr)
        res = []
        try:
            self.ev(d, st, lambda v, s: res.append(v) or [])
        finally:
            st.frames.pop()
        if len(res) != 1:
            raise Unsupported("default value expression")
        return res[0]

    def defining_class(self, info):
        f = info
        while f is not None and f.cls is None:
            f = f.parent
        return f.cls if f is not None else None

    def call_repo(self, info, args, kwargs, st, k, self_val=None, closure=None):
        """call a function defined in the repo: via contract when it has one, else inline"""
        bound = self.bind_params(info, args, kwargs, st, closure)
        direct = getattr(self, "_direct_call", False)
        self._direct_call = False
        if info.is_async or info.has_yield:
            kind = "asyncgen" if info.is_asyncgen else ("coro" if info.is_async else "gen")
            co = CoroVal(info, bound, closure, kind, self.defining_class(info))
            co.direct = direct
            return k(co, st)
        return self.run_function(info, bound, st, k, closure, direct=direct)

    def contract_for(self, info, bound=None):
        c = self.reg.contracts.get(info.fqn)
        return c

    def run_function(self, info, bound, st, k, closure=None, force_inline=False, direct=False):
        """execute a synchronous function (or the body of a started coroutine/generator)"""
        c = self.contract_for(info, bound)
        if c is not None and not force_inline and not c.inline and info is not self.cur_func_inline_guard():
            return self.apply_contract(c, info, bound, st, k, direct=direct)
        if c is None:
            self.inlined.add(info.fqn)
        if st.depth > MAX_INLINE_DEPTH:
            raise Unsupported("inline depth exceeded at %s" % info.fqn)
        fr = Frame(info, info.module, self.defining_class(info), closure=closure, spec=False)
        fr.locals = dict(bound)
        st.frames.append(fr)
        st.depth += 1
        st.note("enter " + info.qualname)
        entry_snap = st.snap() if (c is not None and c.ghost_exit) else None
        outs = self.exec_block(info.node.body, st)
        res = []
        for o, s in outs:
            s.frames.pop()
            s.depth -= 1
            if o.kind in ("R", "N") and entry_snap is not None:
                # ghost updates of an inlined callee run at its normal exits (old() = state at its entry)
                gfr = Frame(info, info.module, spec=True)
                gfr.locals = dict(bound)
                gfr.locals["result"] = o.val if o.kind == "R" else NONE
                saved_old = s.old
                s.old = entry_snap
                states = [s]
                for g in c.ghost_exit:
                    states = [s3 for s2 in states for s3 in self.run_ghost(g, s2, frame=gfr.copy())]
                for s2 in states:
                    s2.old = saved_old
                    res.extend(k(o.val if o.kind == "R" else NONE, s2))
                continue
            if o.kind == "R":
                res.extend(k(o.val, s))
            elif o.kind == "N":
                res.extend(k(NONE, s))
            elif o.kind == "X":
                res.append((o, s))
            else:
                raise Unsupported("outcome %s escaping function %s" % (o.kind, info.fqn))
        return res

    def cur_func_inline_guard(self):
        return None

    # ------------------------------------------------------------------ instantiation
    def instantiate(self, cv, args, kwargs, st, k):
        name = cv.name
        vm = self.model_of(name)
        if vm is not None and vm.value:
            # immutable value class: run __init__ symbolically on a record
            ci = cv.info
            init = self.repo.find_method(ci, "__init__")
            bound = self.bind_params(init, [NONE] + list(args), kwargs, st)
            fields = list(vm.fields)
            ty = TUP(*[vm.fields[f] for f in fields])
            items = []
            for f in fields:
                if f not in bound:
                    raise Unsupported("value class %s: field %s is not an __init__ parameter" % (name, f))
                items.append(bound[f])
            self.check_value_init(init, fields)
            return k(tup_mk(ty, items), st)
        if name in BUILTIN_EXC or cv.info is None:
            if name == "object":
                return k(self.alloc(st, "object", "obj"), st)
            obj = self.alloc(st, name, "exc")
            return k(obj, st)
        ci = cv.info
        if name in ("Hibernate",):
            return k(Singleton("hibernate"), st)
        meta = None
        newm = self.repo.find_method(ci, "__new__")
        if newm is not None:
            c = self.reg.contracts.get(newm.fqn)
            if c is None:
                raise Unsupported("class %s defines __new__ (no contract)" % name)

            def after_new(obj, s):
                init = self.repo.find_method(ci, "__init__")
                if init is None or not (isinstance(obj, Val) and obj.ty[0] == "ref"):
                    return k(obj, s)
                s.constructing = s.constructing | {obj.t.get_id()}

                def inited(_r, s2):
                    s2.constructing = s2.constructing - {obj.t.get_id()}
                    return k(obj, s2)
                return self.call_repo(init, [obj] + list(args), kwargs, s, inited, self_val=obj)
            return self.apply_contract(c, newm, self.bind_params(newm, [cv] + list(args), kwargs, st), st, after_new)
        obj = self.alloc(st, name)
        init = self.repo.find_method(ci, "__init__")
        if init is None:
            return k(obj, st)
        if self.model_of_any(ci) is None and self.is_exception_class(ci):
            # exception class without field model: allocate only (its __init__ only stores message data)
            self.assumptions_used.add("exception class %s: __init__ not executed (no field model)" % name)
            return k(obj, st)
        st.constructing = st.constructing | {obj.t.get_id()}

        def inited(_r, s):
            s.constructing = s.constructing - {obj.t.get_id()}
            return k(obj, s)
        return self.call_repo(init, [obj] + list(args), kwargs, st, inited, self_val=obj)

    def check_value_init(self, init, fields):
        """value classes: __init__ must be exactly `self.f = f` for every field"""
        stmts = [s for s in init.node.body if not (isinstance(s, ast.Expr) and isinstance(s.value, ast.Constant))]
        got = []
        for s in stmts:
            if isinstance(s, ast.Assign) and len(s.targets) == 1 and isinstance(s.targets[0], ast.Attribute) \
                    and isinstance(s.targets[0].value, ast.Name) and s.targets[0].value.id == "self" \
                    and isinstance(s.value, ast.Name) and s.value.id == s.targets[0].attr:
                got.append(s.value.id)
            else:
                raise Unsupported("value class __init__ is not a plain field copy: %s" % ast.unparse(s))
        if sorted(got) != sorted(fields):
            raise Unsupported("value class fields %s != assigned %s" % (fields, got))

    def model_of_any(self, ci):
        for c in self.repo.mro(ci):
            if c.name in self.reg.models:
                return self.reg.models[c.name]
        return None

    def is_exception_class(self, ci):
        return "BaseException" in self.repo.builtin_bases(ci)

    def call_opaque(self, f, args, kwargs, st, k):
        """call of an unknown callable (user callback): fresh result, may raise anything"""
        raise Unsupported("call of opaque callable")

    # ------------------------------------------------------------------ builtins
    def call_builtin(self, name, args, kwargs, st, k, fv=None):
        h = getattr(self, "bi_" + name.replace(".", "_"), None)
        if h is None:
            raise Unsupported("builtin %s" % name)
        if kwargs and name not in ("deque", "min", "max", "print", "wraps", "store"):
            # never silently drop an argument that changes the meaning of the call
            raise Unsupported("keyword arguments of builtin %s" % name)
        return h(args, kwargs, st, k)

    def bi_len(self, args, kwargs, st, k):
        v = args[0]
        if isinstance(v, PyTup):
            return k(mk_int(len(v.items)), st)
        if isinstance(v, EmptyList):
            return k(mk_int(0), st)
        if isinstance(v, Val) and v.ty[0] == "tup":
            return k(mk_int(len(v.ty[1])), st)
        if isinstance(v, DictFld):
            return k(Val(INT, self.dict_len(st, v)), st)
        if isinstance(v, OptList):
            v = v.lst
        if self.is_listlike(v):
            return k(Val(INT, self.get_list(st, v).n), st)
        if isinstance(v, Val) and v.ty[0] == "ref" and v.ty[1]:
            return self.call_method(v, "__len__", [], {}, st, k)
        raise Unsupported("len of %r" % (v,))

    def bi_object(self, args, kwargs, st, k):
        return k(self.alloc(st, "object", "obj"), st)

    def bi_float(self, args, kwargs, st, k):
        v = args[0]
        if isinstance(v, PyConst) and v.v == "inf":
            self.assumptions_used.add("float('inf') is an unconstrained positive real constant (no infinity arithmetic)")
            st.assume(INF > 0)
            return k(Val(REAL, INF), st)
        return k(coerce(self.num(v), REAL), st)

    def bi_int(self, args, kwargs, st, k):
        raise Unsupported("int()")

    def bi_bool(self, args, kwargs, st, k):
        return self.bool_of(args[0], st, lambda b, s: k(mk_bool(b), s))

    def bi_repr(self, args, kwargs, st, k):
        return k(PyConst("<repr>"), st)

    bi_str = bi_repr

    def bi_id(self, args, kwargs, st, k):
        return k(fresh_val("id", INT), st)

    def bi_print(self, args, kwargs, st, k):
        return k(NONE, st)

    def bi_type(self, args, kwargs, st, k):
        return k(self.type_of(args[0]), st)

    def class_term(self, c):
        if isinstance(c, ClsVal):
            return cls_const(c.name)
        if isinstance(c, Val) and c.ty[0] == "ref":
            return c.t
        raise Unsupported("class value expected: %r" % (c,))

    def subclass_term(self, sub_t, c, st):
        """z3 Bool: class term sub_t is a subclass of python class value(s) c"""
        if isinstance(c, PyTup):
            return z3.Or(*[self.subclass_term(sub_t, x, st) for x in c.items]) if c.items else z3.BoolVal(False)
        if isinstance(c, OptList):
            c = c.lst
        if self.is_listlike(c):
            lv = self.get_list(st, c)
            i = z3.Int("i!sc")
            return z3.Exists([i], z3.And(0 <= i, i < lv.n, subclass(sub_t, z3.Select(lv.arr, i))))
        if isinstance(c, ClsVal) and c.name == "object":
            return z3.BoolVal(True)
        return subclass(sub_t, self.class_term(c))

    def bi_isinstance(self, args, kwargs, st, k):
        v, c = args
        if isinstance(c, ClsVal) and c.name in ("dict", "tuple", "list", "str", "int", "float"):
            return k(mk_bool(self.py_builtin_instance(v, c.name)), st)
        if isinstance(c, ClsVal) and c.info is not None and self.metaclass_of(c.info) and \
                self.find_repo_method(self.metaclass_of(c.info), "__instancecheck__"):
            obj = Val(REF(self.metaclass_of(c.info)), cls_const(c.name))
            return self.call_method(obj, "__instancecheck__", [v], {}, st, k)
        if isinstance(v, Val) and v.ty[0] == "ref":
            if isinstance(c, ClsVal) and c.name in ("Awaitable", "Coroutine"):
                f = z3.Function("is_awaitable", RefS, z3.BoolSort())
                return k(mk_bool(f(v.t)), st)
            t = self.subclass_term(cls_of(v.t), c, st)
            return k(mk_bool(z3.And(v.t != NULL, t) if not self.class_may_be_none(c) else t), st)
        if isinstance(v, PyConst) and v.v is None:
            return k(mk_bool(False), st)
        if isinstance(v, (PyTup,)) or (isinstance(v, Val) and v.ty[0] in ("tup", "int", "real", "bool", "opt")):
            return k(mk_bool(False), st)
        if isinstance(v, (CoroVal, Singleton, Cell, FldList, LVal, DictFld, EmptyList)):
            return k(mk_bool(False), st)
        raise Unsupported("isinstance(%r, %r)" % (v, c))

    def class_may_be_none(self, c):
        return False

    def py_builtin_instance(self, v, name):
        if name == "tuple":
            return isinstance(v, PyTup) or (isinstance(v, Val) and v.ty[0] == "tup")
        if name == "dict":
            return isinstance(v, (DictLit, DictFld, KwArgs))
        if name == "list":
            return isinstance(v, (Cell, FldList, EmptyList))
        return False

    def bi_issubclass(self, args, kwargs, st, k):
        a, c = args
        # metaclass hook of the right-hand class
        if isinstance(c, ClsVal) and c.info is not None and self.metaclass_of(c.info) and \
                self.find_repo_method(self.metaclass_of(c.info), "__subclasscheck__"):
            obj = Val(REF(self.metaclass_of(c.info)), cls_const(c.name))
            return self.call_method(obj, "__subclasscheck__", [a], {}, st, k)
        return k(mk_bool(self.subclass_term(self.class_term(a), c, st)), st)

    def bi_hasattr(self, args, kwargs, st, k):
        f = z3.Function("hasattr_" + str(args[1].v), RefS, z3.BoolSort())
        v = args[0]
        if isinstance(v, CoroVal):
            return k(mk_bool(True), st)
        return k(mk_bool(f(coerce(v, ANY).t)), st)

    def bi_getattr(self, args, kwargs, st, k):
        if len(args) == 2 and isinstance(args[1], PyConst):
            return self.getattr_val(args[0], args[1].v, st, k)
        raise Unsupported("getattr with default / dynamic name")

    def bi_callable(self, args, kwargs, st, k):
        return k(mk_bool(isinstance(args[0], (FuncVal, ClsVal))), st)

    # -- quantifier-like builtins over generator expressions and lists
    def bi_all(self, args, kwargs, st, k):
        return self.quant(args[0], st, k, True)

    def bi_any(self, args, kwargs, st, k):
        return self.quant(args[0], st, k, False)

    def quant(self, src, st, k, is_all):
        if isinstance(src, GenExp):
            node = src.node
            if len(node.generators) != 1:
                raise Unsupported("nested comprehension generators")
            gen = node.generators[0]
            res = []

            def with_iter(it, s):
                return self.quant_over(it, gen.target, [*gen.ifs], node.elt, s, k, is_all, src.frame)
            return self.ev(gen.iter, st, with_iter)
        # plain iterable of values: all(x) == all(bool(e) for e in x)
        if isinstance(src, PyTup):
            def step(i, acc, s):
                if i == len(src.items):
                    t = (z3.And(*acc) if is_all else z3.Or(*acc)) if acc else z3.BoolVal(is_all)
                    return k(mk_bool(t), s)
                return self.bool_of(src.items[i], s, lambda b, s2: step(i + 1, acc + [b], s2))
            return step(0, [], st)
        if self.is_listlike(src):
            lv = self.get_list(st, src)
            i = fresh("qi", z3.IntSort())
            elem = Val(lv.ety, z3.Select(lv.arr, i))
            b = self.pure_bool(st, lambda s, kk: self.bool_of(elem, s, lambda t, s2: kk(mk_bool(t), s2)))
            rng = z3.And(0 <= i, i < lv.n)
            t = z3.ForAll([i], z3.Implies(rng, b)) if is_all else z3.Exists([i], z3.And(rng, b))
            return k(mk_bool(t), st)
        raise Unsupported("all/any over %r" % (src,))

    def quant_over(self, it, target, ifs, elt, st, k, is_all, frame):
        """all/any(elt for target in it if ifs)"""
        if isinstance(it, PyTup):
            def step(i, acc, s):
                if i == len(it.items):
                    t = (z3.And(*acc) if is_all else z3.Or(*acc)) if acc else z3.BoolVal(is_all)
                    return k(mk_bool(t), s)
                b = self.pure_bool(s, lambda s1, kk: self.with_binding(s1, target, it.items[i], lambda s2: self.guarded(ifs, elt, s2, kk, is_all)))
                return step(i + 1, acc + [b], s)
            return step(0, [], st)
        if isinstance(it, EmptyList):
            return k(mk_bool(is_all), st)
        if isinstance(it, FuncRange):
            i = fresh("qi", z3.IntSort())
            b = self.pure_bool(st, lambda s1, kk: self.with_binding(s1, target, Val(INT, i), lambda s2: self.guarded(ifs, elt, s2, kk, is_all)))
            rng = z3.And(it.lo <= i, i < it.hi)
            t = z3.ForAll([i], z3.Implies(rng, b)) if is_all else z3.Exists([i], z3.And(rng, b))
            return k(mk_bool(t), st)
        if isinstance(it, OptList):
            it = it.lst
        if self.is_listlike(it):
            lv = self.get_list(st, it)
            i = fresh("qi", z3.IntSort())
            elem = Val(lv.ety, z3.Select(lv.arr, i))
            b = self.pure_bool(st, lambda s1, kk: self.with_binding(s1, target, elem, lambda s2: self.guarded(ifs, elt, s2, kk, is_all)))
            rng = z3.And(0 <= i, i < lv.n)
            t = z3.ForAll([i], z3.Implies(rng, b)) if is_all else z3.Exists([i], z3.And(rng, b))
            return k(mk_bool(t), st)
        raise Unsupported("quantification over %r" % (it,))

    def guarded(self, ifs, elt, st, kk, is_all):
        """bool(elt) under filter conditions: all -> ifs => elt ; any -> ifs and elt"""
        if not ifs:
            return self.truth(elt, st, lambda s: kk(mk_bool(True), s), lambda s: kk(mk_bool(False), s))
        return self.truth(ifs[0], st,
                          lambda s: self.guarded(ifs[1:], elt, s, kk, is_all),
                          lambda s: kk(mk_bool(is_all), s))

    def with_binding(self, st, target, val, body):
        """run body with `target` bound to val in a scratch frame copy"""
        fr = st.frame.copy()
        st.frames.append(fr)
        self.assign_target(target, val, st)
        outs = body(st)
        for o, s in outs:
            pass
        return outs

    def pure_bool(self, st, run):
        """evaluate a side-effect free boolean computation that may fork; merge the forks into one term.
        run(state, kk) must call kk(Val bool, state) on every path."""
        base = st.copy()
        base.in_spec += 1
        n0 = len(base.pc)
        nf = len(base.frames)
        results = []

        def kk(v, s):
            delta = s.pc[n0:]
            facts = [d for d in delta if d.get_id() in s.fact_ids]
            for f in facts:
                if f.get_id() not in st.fact_ids:
                    st.assume_fact(f)       # closed facts found on the way belong to the caller's hypotheses
            results.append((self.as_bool_term(v), [d for d in delta if d.get_id() not in s.fact_ids]))
            return []
        outs = run(base, kk)
        for o, s in outs:
            if o.kind == "X":
                raise Unsupported("exception inside a quantified/pure expression")
        if not results:
            raise Unsupported("pure expression produced no value")
        if len(results) == 1 and not results[0][1]:
            return results[0][0]
        # the path conditions of the forks partition the space
        terms = [z3.And(*(delta + [t])) if delta else t for t, delta in results]
        return z3.Or(*terms)

    def bi_sum(self, args, kwargs, st, k):
        from .flow import DictValues
        if isinstance(args[0], DictValues):
            return k(self.dict_sum_values(st, args[0].d), st)
        raise Unsupported("sum()")

    def bi_tuple(self, args, kwargs, st, k):
        if not args:
            return k(PyTup([]), st)
        v = args[0]
        if isinstance(v, PyTup):
            return k(PyTup(v.items), st)
        if isinstance(v, GenExp):
            return self.comp_to_list(v, st, lambda lv, s: k(self.freeze(s, lv), s))
        if self.is_listlike(v):
            lv = self.get_list(st, v)
            return k(LVal(lv.ety, lv.arr, lv.n, "tuple"), st)
        raise Unsupported("tuple(%r)" % (v,))

    def freeze(self, st, v):
        lv = self.get_list(st, v) if not isinstance(v, EmptyList) else None
        if lv is None:
            return PyTup([])
        return LVal(lv.ety, lv.arr, lv.n, "tuple")

    def bi_list(self, args, kwargs, st, k):
        if not args:
            return k(EmptyList("list"), st)
        v = args[0]
        if isinstance(v, GenExp):
            return self.comp_to_list(v, st, k)
        if isinstance(v, EmptyList):
            return k(EmptyList("list"), st)
        if isinstance(v, TakeWhile):
            return self.takewhile_list(v, st, k)
        if isinstance(v, WeakSetVal):
            return self.weakset_list(v, st, k)
        if self.is_listlike(v):
            lv = self.as_lval(st, v)
            return k(self.new_cell(st, LVal(lv.ety, lv.arr, lv.n)), st)
        raise Unsupported("list(%r)" % (v,))

    def bi_WeakSet(self, args, kwargs, st, k):
        if args or kwargs:
            raise Unsupported("WeakSet(iterable)")
        self.assumptions_used.add("weakref.WeakSet is treated as a set of live objects: an object that is dropped from it is "
                                  "unreachable, so nobody waits on it or observes it any more")
        return k(EmptySet(), st)

    def set_mem(self, st, ws):
        arr = st.harr(ws.key + "#mem", self.set_sort())
        return z3.Select(arr, ws.obj)

    def set_method(self, recv, m, args, kwargs, st, k):
        if m == "add" and len(args) == 1:
            x = coerce(args[0], recv.ety or ANY).t
            arr = st.harr(recv.key + "#mem", self.set_sort())
            st.hset(recv.key + "#mem", z3.Store(arr, recv.obj, z3.Store(z3.Select(arr, recv.obj), x, z3.BoolVal(True))))
            return k(NONE, st)
        if m == "discard" and len(args) == 1:
            x = coerce(args[0], recv.ety or ANY).t
            arr = st.harr(recv.key + "#mem", self.set_sort())
            st.hset(recv.key + "#mem", z3.Store(arr, recv.obj, z3.Store(z3.Select(arr, recv.obj), x, z3.BoolVal(False))))
            return k(NONE, st)
        raise Unsupported("set method " + m)

    def weakset_list(self, ws, st, k):
        """list(s): the members, each once, in an unspecified order"""
        ety = ws.ety or ANY
        mem = self.set_mem(st, ws)
        arr = fresh("setl_a", z3.ArraySort(z3.IntSort(), RefS))
        n = fresh("setl_n", z3.IntSort())
        i = z3.Const("i!sl", z3.IntSort())
        j = z3.Const("j!sl", z3.IntSort())
        x = z3.Const("x!sl", RefS)
        idx = z3.Function("setl_idx!%d" % arr.get_id(), RefS, z3.IntSort())
        st.assume(n >= 0)
        st.assume(z3.ForAll([i], z3.Implies(z3.And(0 <= i, i < n), z3.And(z3.Select(mem, z3.Select(arr, i)), idx(z3.Select(arr, i)) == i)),
                            patterns=[z3.Select(arr, i)]))
        st.assume(z3.ForAll([x], z3.Implies(z3.Select(mem, x), z3.And(0 <= idx(x), idx(x) < n, z3.Select(arr, idx(x)) == x)),
                            patterns=[z3.Select(mem, x)]))
        if ety[0] == "ref" and ety[1] is not None:
            # members are existing objects of the declared class (typing discipline of the field)
            e = z3.Select(arr, i)
            st.assume(z3.ForAll([i], z3.Implies(z3.And(0 <= i, i < n),
                                                z3.And(e != NULL, subclass(cls_of(e), cls_const(ety[1])), birth(e) <= st.clock)),
                                patterns=[e]))
        lv = LVal(ety, arr, n)
        return k(lv if st.frame.spec else self.new_cell(st, lv), st)

    def bi_deque(self, args, kwargs, st, k):
        if kwargs:
            if set(kwargs) != {"maxlen"} or args:
                raise Unsupported("deque(...) with these arguments")
            mx = kwargs["maxlen"]
            if not (isinstance(mx, PyConst) and mx.v is None):
                # representation obligation: every sequence the contracts talk about is an unbounded sequence
                # (append never evicts); a bounded deque is not such a value
                self.emit(st, "type", "unbounded_sequence",
                          "sequences under contract are unbounded (append never evicts): deque(maxlen=...) is not",
                          z3.BoolVal(False))
            return k(EmptyList("deque"), st)
        if not args:
            return k(EmptyList("deque"), st)
        raise Unsupported("deque(iterable)")

    def bi_frozenset(self, args, kwargs, st, k):
        raise Unsupported("frozenset()")

    bi_set = bi_frozenset

    def bi_dict(self, args, kwargs, st, k):
        raise Unsupported("dict()")

    def bi_range(self, args, kwargs, st, k):
        if len(args) == 1:
            return k(FuncRange(z3.IntVal(0), self.num(args[0]).t), st)
        if len(args) == 2:
            return k(FuncRange(self.num(args[0]).t, self.num(args[1]).t), st)
        raise Unsupported("range with step")

    def bi_min(self, args, kwargs, st, k):
        if len(args) == 2 and (self.is_opt(args[0]) or self.is_opt(args[1])):
            return self.unopt(args[0], st, lambda a, s: self.unopt(args[1], s, lambda b, s2: self.bi_min([a, b], kwargs, s2, k)))
        if len(args) == 2:
            x, y, ty = num_pair(self.num(args[0]), self.num(args[1]))
            return k(Val(ty, z3.If(x <= y, x, y)), st)
        raise Unsupported("min()")

    def bi_max(self, args, kwargs, st, k):
        if len(args) == 2 and (self.is_opt(args[0]) or self.is_opt(args[1])):
            return self.unopt(args[0], st, lambda a, s: self.unopt(args[1], s, lambda b, s2: self.bi_max([a, b], kwargs, s2, k)))
        if len(args) == 2:
            x, y, ty = num_pair(self.num(args[0]), self.num(args[1]))
            return k(Val(ty, z3.If(x >= y, x, y)), st)
        raise Unsupported("max()")

    def bi_abs(self, args, kwargs, st, k):
        v = self.num(args[0])
        return k(Val(v.ty, z3.If(v.t >= 0, v.t, -v.t)), st)

    def bi_whole(self, args, kwargs, st, k):
        """spec-only: the number is integer-valued"""
        v = self.num(args[0])
        return k(Val(BOOL, z3.IsInt(v.t) if v.t.sort() == z3.RealSort() else z3.BoolVal(True)), st)

    def bi_bound_method(self, args, kwargs, st, k):
        """spec-only: the object `obj.name` evaluates to when a bound method is stored as a value (see core.coerce)"""
        name, obj = args
        bm = z3.Function("boundmethod", RefS, RefS, RefS)
        return k(Val(ANY, bm(str_const(name.v), obj.t)), st)

    def bi_takewhile(self, args, kwargs, st, k):
        return k(TakeWhile(args[0], args[1]), st)

    def bi_wraps(self, args, kwargs, st, k):
        return k(FuncVal("builtin", name="identity"), st)

    def bi_store(self, args, kwargs, st, k):
        m, key, v = args
        return k(Val(m.ty, z3.Store(m.t, coerce(key, m.ty[1]).t, coerce(v, m.ty[2]).t if not isinstance(v, PyTup) else tup_mk(m.ty[2], v.items).t)), st)

    def bi_getcoroutinestate(self, args, kwargs, st, k):
        v = args[0]
        ref = self.coro_ref(st, v).t if isinstance(v, CoroVal) else v.t
        self.assumptions_used.add("inspect.getcoroutinestate returns the ghost coroutine state (created/suspended/running/closed)")
        return k(Val(INT, self.get_coro_state(st, ref)), st)

    def bb_opaque_close(self, recv, args, kwargs, st, k):
        self.assumptions_used.add("close() of a payload object that never started or has finished has no effect on the simulation state")
        return k(NONE, st)

    def bi_identity(self, args, kwargs, st, k):
        return k(args[0], st)

    def bi_object___init__(self, args, kwargs, st, k):
        return k(NONE, st)

    def bi_object___init_subclass__(self, args, kwargs, st, k):
        return k(NONE, st)

    # ------------------------------------------------------------------ comprehension -> list
    def comp_to_list(self, ge, st, k):
        node = ge.node
        if len(node.generators) != 1:
            raise Unsupported("nested comprehension generators")
        gen = node.generators[0]

        def with_iter(it, s):
            if isinstance(it, PyTup):
                def step(i, acc, s2):
                    if i == len(it.items):
                        if not acc:
                            return k(EmptyList("list"), s2)
                        return k(self.new_cell(s2, self.as_lval(s2, PyTup(acc))) if not s2.frame.spec else PyTup(acc), s2)
                    s2.frames.append(s2.frame.copy())
                    self.assign_target(gen.target, it.items[i], s2)

                    def filt(j, s3):
                        if j == len(gen.ifs):
                            def got(v, s4):
                                s4.frames.pop()
                                return step(i + 1, acc + [v], s4)
                            return self.ev(node.elt, s3, got)

                        def skip(s4):
                            s4.frames.pop()
                            return step(i + 1, acc, s4)
                        return self.truth(gen.ifs[j], s3, lambda s4: filt(j + 1, s4), skip)
                    return filt(0, s2)
                return step(0, [], s)
            if isinstance(it, EmptyList):
                return k(EmptyList("list"), s)
            if isinstance(it, OptList):
                it = it.lst
            if self.is_listlike(it):
                if gen.ifs:
                    return self.filter_list(it, gen, node.elt, s, k)
                lv = self.get_list(s, it)
                i = fresh("mi", z3.IntSort())
                elem = Val(lv.ety, z3.Select(lv.arr, i))
                res = []

                def body(s1, kk):
                    return self.with_binding(s1, gen.target, elem, lambda s2: self.ev(node.elt, s2, kk))
                try:
                    out = self.pure_value(s, body)
                except Unsupported:
                    if s.frame.spec or s.in_spec:
                        raise
                    # the element expression has effects (calls under contract, allocation, awaits):
                    # run it as the loop it abbreviates, with the loop invariants declared for "comp#<n>"
                    return self.comp_as_loop(node, gen, lv, s, k)
                arr = z3.Lambda([i], out.t)
                new = LVal(out.ty, arr, lv.n)
                return k(new if s.frame.spec else self.new_cell(s, new), s)
            raise Unsupported("comprehension over %r" % (it,))
        return self.ev(gen.iter, st, with_iter)

    def comp_as_loop(self, node, gen, lv, st, k):
        """[elt for target in L] with an effectful elt  ==  _res = []; for target in L: _res.append(elt)"""
        name = "_res"
        if name in st.frame.locals:
            raise Unsupported("nested effectful comprehensions")
        c = self.cur_contract
        label = self.loop_label(st, node, "comp")
        ety = (c.comp_types.get(label) if c is not None else None) or ANY      # declared element type of the result
        st.frame.locals[name] = self.new_cell(st, self.empty_list(ety))
        call = ast.Expr(value=ast.Call(func=ast.Attribute(value=ast.Name(id=name, ctx=ast.Load()), attr="append", ctx=ast.Load()),
                                       args=[node.elt], keywords=[]))
        loop = ast.For(target=gen.target, iter=gen.iter, body=[call], orelse=[])
        for n in ast.walk(loop):
            if not hasattr(n, "lineno"):
                ast.copy_location(n, node)
        ast.fix_missing_locations(loop)
        loop._comp_of = node
        outs = self.exec_loop(loop, st, kind="comp", for_ctx=lv)
        res = []
        for o, s2 in outs:
            if o.kind == "N":
                v = s2.frame.locals.pop(name)
                res.extend(k(v, s2))
            else:
                s2.frame.locals.pop(name, None)
                res.append((o, s2))
        return res

    def takewhile_list(self, tw, st, k):
        """list(takewhile(pred, L))  ==  _res = []
                                          for _tw in L:
                                              if not pred(_tw): break
                                              _res.append(_tw)
        run as that loop (label "takewhile#<line>", invariants from the contract); pred may have effects (a method under contract).
        L is read once at loop entry: the iteration is over that snapshot (the loop body must not change L's length; the
        callers' contracts state `L == old(L)` as a loop invariant)."""
        names = ("_res", "_twf", "_twl", "_tw")
        if any(n in st.frame.locals for n in names):
            raise Unsupported("nested takewhile")
        if st.frame.spec or st.in_spec:
            raise Unsupported("takewhile in a specification")
        if isinstance(tw.src, EmptyList):
            return k(EmptyList("list"), st)
        if not self.is_listlike(tw.src):
            raise Unsupported("takewhile over %r" % (tw.src,))
        lv = self.get_list(st, tw.src)
        st.frame.locals["_res"] = self.new_cell(st, self.empty_list(lv.ety))
        st.frame.locals["_twf"] = tw.pred
        st.frame.locals["_twl"] = tw.src

        def nm(n):
            return ast.Name(id=n, ctx=ast.Load())
        test = ast.UnaryOp(op=ast.Not(), operand=ast.Call(func=nm("_twf"), args=[nm("_tw")], keywords=[]))
        body = [ast.If(test=test, body=[ast.Break()], orelse=[]),
                ast.Expr(value=ast.Call(func=ast.Attribute(value=nm("_res"), attr="append", ctx=ast.Load()), args=[nm("_tw")], keywords=[]))]
        loop = ast.For(target=ast.Name(id="_tw", ctx=ast.Store()), iter=nm("_twl"), body=body, orelse=[])
        ast.fix_missing_locations(loop)
        # label: one takewhile per function is supported
        if "_tw_done" in st.frame.locals:
            raise Unsupported("second takewhile in one function")
        st.frame.locals["_tw_done"] = PyConst(True)
        loop._label_override = "takewhile#1"
        outs = self.exec_loop(loop, st, kind="takewhile", for_ctx=lv)
        res = []
        for o, s2 in outs:
            for n in ("_twf", "_twl", "_tw"):
                s2.frame.locals.pop(n, None)
            if o.kind == "N":
                v = s2.frame.locals.pop("_res")
                res.extend(k(v, s2))
            else:
                s2.frame.locals.pop("_res", None)
                res.append((o, s2))
        return res

    def filter_list(self, it, gen, elt, st, k):
        raise Unsupported("filtering comprehension over symbolic list")

    def pure_value(self, st, run):
        base = st.copy()
        base.in_spec += 1
        n0 = len(base.pc)
        results = []

        def kk(v, s):
            results.append((v, s.pc[n0:]))
            return []
        outs = run(base, kk)
        for o, s in outs:
            if o.kind == "X":
                raise Unsupported("exception inside a pure expression")
        if not results:
            raise Unsupported("pure expression produced no value")
        v0 = results[0][0]
        if isinstance(v0, PyTup):
            raise Unsupported("tuple-valued mapped comprehension")
        if isinstance(v0, ClsVal):
            v0 = Val(ANY, cls_const(v0.name))
        if len(results) == 1:
            return v0
        t = v0.t
        for v, delta in results[1:]:
            vv = coerce(v, v0.ty)
            t = z3.If(z3.And(*delta) if delta else z3.BoolVal(True), vv.t, t)
        return Val(v0.ty, t)

    # ------------------------------------------------------------------ list methods
    def call_bound_builtin(self, f, args, kwargs, st, k):
        name = f.name
        recv = f.self_val
        if name.startswith("list."):
            return self.list_method(recv, name[5:], args, kwargs, st, k)
        h = getattr(self, "bb_" + name.replace(".", "_"), None)
        if h is None:
            raise Unsupported("builtin method %s" % name)
        return h(recv, args, kwargs, st, k)

    def list_method(self, recv, m, args, kwargs, st, k):
        if isinstance(recv, DictFld):
            return self.dict_method(recv, m, args, kwargs, st, k)
        if isinstance(recv, WeakSetVal):
            return self.set_method(recv, m, args, kwargs, st, k)
        if isinstance(recv, OptList):
            recv = recv.lst
        if isinstance(recv, EmptyList):
            raise Unsupported("method %s on untyped empty list literal (assign it to a typed field first)" % m)
        if isinstance(recv, PyTup):
            raise Unsupported("method %s on tuple literal" % m)
        lv = self.get_list(st, recv)
        ety = lv.ety
        if m == "append":
            x = self.elem(args[0], ety)
            self.set_list(st, recv, LVal(ety, z3.Store(lv.arr, lv.n, x.t), lv.n + 1, lv.kind))
            self.elem_hook(st, recv, "add", x, lv.n)
            return k(NONE, st)
        if m == "copy":
            return k(self.new_cell(st, LVal(ety, lv.arr, lv.n, lv.kind)), st)
        if m == "clear":
            self.elem_hook_all(st, recv, lv)
            self.set_list(st, recv, LVal(ety, lv.arr, z3.IntVal(0), lv.kind))
            return k(NONE, st)
        if m in ("pop", "popleft"):
            if m == "pop" and args:
                idx = self.num(args[0]).t
            elif m == "pop":
                idx = lv.n - 1
            else:
                idx = z3.IntVal(0)
            idx = z3.simplify(idx)

            def do_pop(s):
                lv2 = self.get_list(s, recv)
                ii = z3.If(idx < 0, lv2.n + idx, idx) if not z3.is_int_value(idx) else (idx if idx.as_long() >= 0 else lv2.n + idx)
                x = Val(ety, z3.Select(lv2.arr, ii))
                j = z3.Int("i!pop")
                arr = z3.Lambda([j], z3.If(j < ii, z3.Select(lv2.arr, j), z3.Select(lv2.arr, j + 1)))
                self.set_list(s, recv, LVal(ety, arr, lv2.n - 1, lv2.kind))
                self.elem_hook(s, recv, "remove", x, ii)
                return k(x, s)
            ii0 = z3.If(idx < 0, lv.n + idx, idx)
            ok = z3.And(lv.n > 0, ii0 >= 0, ii0 < lv.n)
            return self.split(st, ok, do_pop, lambda s: self.raise_exc(s, "IndexError"))
        if m == "remove":
            x = self.elem(args[0], ety)
            i = z3.Int("i!rm")
            present = z3.Exists([i], z3.And(0 <= i, i < lv.n, z3.Select(lv.arr, i) == x.t))

            def do_rm(s):
                lv2 = self.get_list(s, recv)
                kk = fresh("rmk", z3.IntSort())
                j = z3.Int("j!rm")
                s.assume(z3.And(0 <= kk, kk < lv2.n, z3.Select(lv2.arr, kk) == x.t,
                                z3.ForAll([j], z3.Implies(z3.And(0 <= j, j < kk), z3.Select(lv2.arr, j) != x.t))))
                arr = z3.Lambda([j], z3.If(j < kk, z3.Select(lv2.arr, j), z3.Select(lv2.arr, j + 1)))
                self.set_list(s, recv, LVal(ety, arr, lv2.n - 1, lv2.kind))
                self.elem_hook(s, recv, "remove", x, kk)
                return k(NONE, s)
            return self.split(st, present, do_rm, lambda s: self.raise_exc(s, "ValueError", "list.remove(x): x not in list"))
        if m == "extend":
            other = self.as_lval(st, args[0], ety)
            self.set_list(st, recv, self.list_concat(lv, other))
            return k(NONE, st)
        if m == "index":
            x = self.elem(args[0], ety)
            i = z3.Int("i!ix")
            present = z3.Exists([i], z3.And(0 <= i, i < lv.n, z3.Select(lv.arr, i) == x.t))

            def found(s):
                kk = fresh("ixk", z3.IntSort())
                j = z3.Int("j!ix")
                s.assume(z3.And(0 <= kk, kk < lv.n, z3.Select(lv.arr, kk) == x.t,
                                z3.ForAll([j], z3.Implies(z3.And(0 <= j, j < kk), z3.Select(lv.arr, j) != x.t))))
                return k(Val(INT, kk), s)
            return self.split(st, present, found, lambda s: self.raise_exc(s, "ValueError"))
        if m == "insert":
            idx = self.num(args[0]).t
            x = self.elem(args[1], ety)
            ii = z3.If(idx > lv.n, lv.n, z3.If(idx < 0, z3.If(lv.n + idx < 0, 0, lv.n + idx), idx))
            j = z3.Int("j!ins")
            arr = z3.Lambda([j], z3.If(j < ii, z3.Select(lv.arr, j), z3.If(j == ii, x.t, z3.Select(lv.arr, j - 1))))
            self.set_list(st, recv, LVal(ety, arr, lv.n + 1, lv.kind))
            return k(NONE, st)
        raise Unsupported("list method %s" % m)

    def elem(self, v, ety):
        if isinstance(v, PyTup):
            return tup_mk(ety, v.items)
        if isinstance(v, CoroVal):
            raise Unsupported("coroutine stored in list")
        return coerce(v, ety)

    def elem_hook(self, st, recv, what, x, index):
        """ghost position tracking for lists of objects (model elem_hooks): keeps `pos` of every member current"""
        if not isinstance(recv, FldList):
            return
        cn, _, f = recv.key.partition(".")
        m = self.reg.models.get(cn)
        if m is None or f not in m.elem_hooks:
            return
        hk = m.elem_hooks[f]
        pos_key, comp, owner_key = hk["pos"], hk["component"], hk["owner"]
        pos = st.harr(pos_key, z3.ArraySort(RefS, z3.IntSort()))
        own = st.harr(owner_key, z3.ArraySort(RefS, RefS))
        elem_ref = tup_get(x, comp).t if comp is not None else x.t
        if what == "add":
            st.hset(pos_key, z3.Store(pos, elem_ref, index))
        else:
            i = z3.Const("i!hook", RefS)
            st.hset(pos_key, z3.Lambda([i], z3.If(z3.And(z3.Select(own, i) == recv.obj, z3.Select(pos, i) > index),
                                                   z3.Select(pos, i) - 1, z3.Select(pos, i))))

    def elem_hook_all(self, st, recv, lv):
        pass

    # ------------------------------------------------------------------ recursive spec functions
    def specrec_decl(self, name, st):
        self._specrec = getattr(self, "_specrec", {})
        if name in self._specrec:
            return self._specrec[name]
        # z3 recursive definitions are global to the process (a worker verifies many functions, each with its own engine):
        # define each spec function once per process
        if name in _SPECREC_PROCESS and self.reg.spec_rec[name][2] is not None:
            self._specrec[name] = _SPECREC_PROCESS[name]
            return self._specrec[name]
        params, returns, body = self.reg.spec_rec[name]
        sorts = []
        for (pn, pt) in params:
            sorts.append(z3.ArraySort(z3.IntSort(), sort_of(pt[1])) if pt[0] == "list" else sort_of(pt))
        if body is None:
            # uninterpreted: its defining axioms become hypotheses (hs.axioms) the first time it is used
            f = z3.Function("spec!" + name, *(sorts + [sort_of(returns)]))
            self._specrec[name] = f
            for dep in self.reg.spec_axioms.get(name, []):
                pass
            from .dsl import parse_expr as _pe
            done_ax = self.__dict__.setdefault("_spec_axioms_done", set())
            for ax in self.reg.spec_axioms.get(name, []):
                if ax in done_ax:
                    continue
                done_ax.add(ax)
                self.assumptions_used.add("definition of spec function %s: %s" % (name, ax))
                fr0 = Frame("<axiom %s>" % name, None, spec=True)
                base0 = st.copy()
                base0.pc = []
                base0.heap_override = None
                st.hs.axioms.append(self.eval_clause(ax, base0, frame=fr0))
            return f
        f = z3.RecFunction("spec!" + name, *(sorts + [sort_of(returns)]))
        self._specrec[name] = f          # visible to recursive calls in the body
        from .dsl import parse_expr
        vs = [z3.Const("%s!%s" % (name, pn), so) for (pn, _pt), so in zip(params, sorts)]
        fr = Frame("<spec %s>" % name, None, spec=True)
        for (pn, pt), v in zip(params, vs):
            if pt[0] == "list":
                fr.locals[pn] = LVal(pt[1], v, z3.IntVal(10 ** 9))
            else:
                fr.locals[pn] = Val(pt, v)
        base = st.copy()
        base.pc = []
        bodyv = self.eval_spec_term(parse_expr(body), base, fr, returns)
        z3.RecAddDefinition(f, vs, bodyv)
        _SPECREC_PROCESS[name] = f
        return f

    def eval_spec_term(self, node, st, fr, ty):
        """evaluate a spec expression to a single term (forks merged by ite on their path conditions)"""
        base = st.copy()
        base.frames = base.frames + [fr]
        base.in_spec += 1
        n0 = len(base.pc)
        results = []
        self.ev(node, base, lambda v, s: results.append((v, s.pc[n0:])) or [])
        if not results:
            raise SpecError("spec expression produced no value")
        out = None
        for v, delta in reversed(results):
            t = coerce(v, ty).t if not isinstance(v, PyConst) or v.v is not None else coerce(v, ty).t
            out = t if out is None else z3.If(z3.And(*delta) if delta else z3.BoolVal(True), t, out)
        return out

    def call_specrec(self, name, args, st, k):
        params, returns, body = self.reg.spec_rec[name]
        f = self.specrec_decl(name, st)
        zargs = []
        for (pn, pt), a in zip(params, args):
            if pt[0] == "list":
                zargs.append(self.as_lval(st, a, pt[1]).arr if not isinstance(a, EmptyList) else self.empty_list(pt[1]).arr)
            else:
                zargs.append(coerce(a, pt).t)
        return k(Val(returns, f(*zargs)), st)

    # ------------------------------------------------------------------ spec functions
    def call_specfunc(self, name, args, st, k):
        params, expr = self.reg.spec_funcs[name]
        from .dsl import parse_expr
        fr = Frame("<spec %s>" % name, None, spec=True)
        if len(params) != len(args):
            raise SpecError("spec function %s arity" % name)
        fr.locals = dict(zip(params, args))
        nf = len(st.frames)
        st.frames.append(fr)

        def done(v, s):
            s.frames.pop()
            return k(v, s)
        return self.trim_frames(self.ev(parse_expr(expr), st, done), nf)


_SPECREC_PROCESS = {}


class AbstractInfo:
    def __init__(self, cn, name):
        self.qualname = cn + "." + name
        self.fqn = "abstract:" + self.qualname
        self.module = None


class StarList:
    __slots__ = ("lv",)

    def __init__(self, lv):
        self.lv = lv


class KwArgs:
    __slots__ = ("items",)

    def __init__(self, items):
        self.items = dict(items)


class FuncRange:
    __slots__ = ("lo", "hi")

    def __init__(self, lo, hi):
        self.lo = lo
        self.hi = hi


class TakeWhile:
    __slots__ = ("pred", "src")

    def __init__(self, pred, src):
        self.pred = pred
        self.src = src


class WeakSetVal:
    """set of object references stored in a field (weakref.WeakSet / set): membership predicate `key#mem`"""
    __slots__ = ("obj", "key", "ety")

    def __init__(self, obj, key, ety=None):
        self.obj = obj
        self.key = key
        self.ety = ety


class EmptySet:
    """WeakSet() / set() literal"""
    pass
