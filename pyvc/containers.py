"""Optional lists, dict-valued fields, weak sets."""
import z3
from .core import *   # noqa
from .base import Outcome, N_, DictLit, DictFld
from .expr import EmptyList, OptList


class ContainerMixin:
    # ---- optional list fields (e.g. MetaConcurrent.specialisations)
    def read_optlist(self, st, obj, key, ety):
        none = st.harr(key + "#none", z3.ArraySort(RefS, z3.BoolSort()))
        return OptList(z3.Select(none, obj), FldList(obj, key, ety))

    def write_optlist(self, st, obj, key, ety, lv):
        none = st.harr(key + "#none", z3.ArraySort(RefS, z3.BoolSort()))
        st.hset(key + "#none", z3.Store(none, obj, z3.BoolVal(lv is None)))
        if lv is not None:
            self.set_list(st, FldList(obj, key, ety), lv)

    # ---- dict fields: not modelled yet
    def dict_heap_keys(self, key, ty):
        raise Unsupported("dict field " + key)

    def dict_len(self, st, d):
        raise Unsupported("dict")

    def dict_has(self, st, d, k):
        raise Unsupported("dict")

    def dict_get(self, st, d, idx, k):
        raise Unsupported("dict")

    def dict_set(self, st, d, idx, v):
        raise Unsupported("dict")

    def dict_del(self, st, d, idx):
        raise Unsupported("dict")

    def dict_clear(self, st, d):
        raise Unsupported("dict")

    def dict_method(self, recv, m, args, kwargs, st, k):
        raise Unsupported("dict method " + m)
