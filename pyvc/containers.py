"""Optional lists, dict-valued fields (scalar or list values), weak sets."""
import ast
import z3
from .core import *   # noqa
from .base import Outcome, N_, DictLit, DictFld
from .expr import EmptyList, OptList


class DictEntryList:
    """reference to the list stored under key `k` of a dict field (Dict[K, List[E]])"""
    __slots__ = ("d", "k", "ety")

    def __init__(self, d, k, ety):
        self.d = d
        self.k = k
        self.ety = ety


class ContainerMixin:
    # ---- optional list fields (e.g. MetaConcurrent.specialisations)
    def read_optlist(self, st, obj, key, ety):
        none = st.harr(key + "#none", z3.ArraySort(RefS, z3.BoolSort()))
        return OptList(z3.Select(none, obj), FldList(obj, key, ety))

    def write_optlist(self, st, obj, key, ety, lv):
        none = st.harr(key + "#none", z3.ArraySort(RefS, z3.BoolSort()))
        st.hset(key + "#none", z3.Store(none, obj, z3.BoolVal(lv is None)))
        if lv is not None:
            self.set_list(st, FldList(obj, key, ety), lv)

    # ---- dict fields
    # scalar values:  key#dom : Ref -> (K -> Bool)    key#val : Ref -> (K -> V)    key#sum : Ref -> Real (numeric V only)
    # list values  :  key#dom , key#vala : Ref -> (K -> (Int -> E)) , key#valn : Ref -> (K -> Int)
    def dict_heap_keys(self, key, ty):
        ks = sort_of(ty[1])
        out = [(key + "#dom", z3.ArraySort(RefS, z3.ArraySort(ks, z3.BoolSort()))),
               (key + "#cnt", z3.ArraySort(RefS, z3.IntSort()))]
        vt = ty[2]
        if vt[0] == "list":
            out.append((key + "#vala", z3.ArraySort(RefS, z3.ArraySort(ks, z3.ArraySort(z3.IntSort(), sort_of(vt[1]))))))
            out.append((key + "#valn", z3.ArraySort(RefS, z3.ArraySort(ks, z3.IntSort()))))
        else:
            out.append((key + "#val", z3.ArraySort(RefS, z3.ArraySort(ks, sort_of(vt)))))
            if vt[0] in ("int", "real"):
                out.append((key + "#sum", z3.ArraySort(RefS, z3.RealSort())))
        return out

    def _darr(self, st, d, suffix):
        ty = ("dict", d.kty, d.vty)
        for hk, sort in self.dict_heap_keys(d.key, ty):
            if hk == d.key + suffix:
                return st.harr(hk, sort), hk
        raise Unsupported("dict component " + suffix)

    def dict_dom(self, st, d):
        a, _ = self._darr(st, d, "#dom")
        return z3.Select(a, d.obj)

    _dict_wit = {}

    def dict_len(self, st, d):
        a, _ = self._darr(st, d, "#cnt")
        c = z3.Select(a, d.obj)
        # the counter is the cardinality of the domain (kept by every dict operation of this model):
        # 0 exactly for the empty domain; a positive count has a witness key
        dom = self.dict_dom(st, d)
        ks = sort_of(d.kty)
        if str(ks) not in self._dict_wit:
            self._dict_wit[str(ks)] = z3.Function("somekey!" + str(ks), z3.ArraySort(ks, z3.BoolSort()), ks)
        wit = self._dict_wit[str(ks)](dom)
        kk = z3.Const("k!card", ks)
        fact = z3.And(c >= 0, z3.Implies(c == 0, z3.ForAll([kk], z3.Not(z3.Select(dom, kk)))), z3.Implies(c > 0, z3.Select(dom, wit)))
        seen = st.hs.__dict__.setdefault("_card_ids", set())
        if fact.get_id() not in seen:
            seen.add(fact.get_id())
            st.hs.axioms.append(fact)
        return c

    def dict_has(self, st, d, k):
        return z3.Select(self.dict_dom(st, d), coerce(k, d.kty).t)

    def dict_get(self, st, d, idx, k):
        kt = coerce(idx, d.kty).t
        has = z3.Select(self.dict_dom(st, d), kt)

        def found(s):
            if d.vty[0] == "list":
                return k(DictEntryList(d, kt, d.vty[1]), s)
            a, _ = self._darr(s, d, "#val")
            return k(Val(d.vty, z3.Select(z3.Select(a, d.obj), kt)), s)
        if st.frame.spec:
            return found(st)
        return self.split(st, has, found, lambda s: self.raise_exc(s, "KeyError"), label="haskey")

    def dict_set(self, st, d, idx, v):
        kt = coerce(idx, d.kty).t
        dom, dk = self._darr(st, d, "#dom")
        cnt, ck = self._darr(st, d, "#cnt")
        had = z3.Select(z3.Select(dom, d.obj), kt)
        st.hset(dk, z3.Store(dom, d.obj, z3.Store(z3.Select(dom, d.obj), kt, z3.BoolVal(True))))
        st.hset(ck, z3.Store(cnt, d.obj, z3.Select(cnt, d.obj) + z3.If(had, 0, 1)))
        if d.vty[0] == "list":
            lv = self.empty_list(d.vty[1]) if isinstance(v, EmptyList) else self.as_lval(st, v, d.vty[1])
            va, vak = self._darr(st, d, "#vala")
            vn, vnk = self._darr(st, d, "#valn")
            st.hset(vak, z3.Store(va, d.obj, z3.Store(z3.Select(va, d.obj), kt, lv.arr)))
            st.hset(vnk, z3.Store(vn, d.obj, z3.Store(z3.Select(vn, d.obj), kt, lv.n)))
            return
        val, vk = self._darr(st, d, "#val")
        nv = coerce(v, d.vty).t
        oldv = z3.Select(z3.Select(val, d.obj), kt)
        st.hset(vk, z3.Store(val, d.obj, z3.Store(z3.Select(val, d.obj), kt, nv)))
        if d.vty[0] in ("int", "real"):
            sm, sk = self._darr(st, d, "#sum")
            old_c = z3.If(had, oldv if d.vty[0] == "real" else z3.ToReal(oldv), z3.RealVal(0))
            new_c = nv if d.vty[0] == "real" else z3.ToReal(nv)
            st.hset(sk, z3.Store(sm, d.obj, z3.Select(sm, d.obj) - old_c + new_c))

    def dict_del(self, st, d, idx):
        kt = coerce(idx, d.kty).t
        dom, dk = self._darr(st, d, "#dom")
        has = z3.Select(z3.Select(dom, d.obj), kt)

        def do(s):
            dom2, _ = self._darr(s, d, "#dom")
            cnt, ck = self._darr(s, d, "#cnt")
            s.hset(dk, z3.Store(dom2, d.obj, z3.Store(z3.Select(dom2, d.obj), kt, z3.BoolVal(False))))
            s.hset(ck, z3.Store(cnt, d.obj, z3.Select(cnt, d.obj) - 1))
            if d.vty[0] in ("int", "real"):
                val, _vk = self._darr(s, d, "#val")
                sm, sk = self._darr(s, d, "#sum")
                oldv = z3.Select(z3.Select(val, d.obj), kt)
                s.hset(sk, z3.Store(sm, d.obj, z3.Select(sm, d.obj) - (oldv if d.vty[0] == "real" else z3.ToReal(oldv))))
            return [(N_, s)]
        return self.split(st, has, do, lambda s: self.raise_exc(s, "KeyError"), label="haskey")

    def dict_clear(self, st, d):
        dom, dk = self._darr(st, d, "#dom")
        cnt, ck = self._darr(st, d, "#cnt")
        ks = sort_of(d.kty)
        st.hset(dk, z3.Store(dom, d.obj, z3.K(ks, z3.BoolVal(False))))
        st.hset(ck, z3.Store(cnt, d.obj, z3.IntVal(0)))
        if d.vty[0] in ("int", "real") and d.vty[0] != "list":
            sm, sk = self._darr(st, d, "#sum")
            st.hset(sk, z3.Store(sm, d.obj, z3.RealVal(0)))

    def dict_method(self, recv, m, args, kwargs, st, k):
        if m == "values":
            from .flow import DictValues
            return k(DictValues(recv), st)
        if m == "pop" and len(args) == 1 and not kwargs:
            # d.pop(key): remove and return the value (KeyError when missing)
            def got(v, s):
                if type(v).__name__ == "DictEntryList":
                    v = self.get_list(s, v)
                outs = self.dict_del(s, recv, args[0])
                res = []
                for o, s2 in outs:
                    res.extend(k(v, s2) if o.kind == "N" else [(o, s2)])
                return res
            return self.dict_get(st, recv, args[0], got)
        if m == "popitem" and len(args) == 1 and getattr(recv, "sorted", False) and (
                (isinstance(args[0], PyConst) and args[0].v == 0) or
                (isinstance(args[0], Val) and args[0].ty[0] == "int" and z3.is_int_value(z3.simplify(args[0].t)) and z3.simplify(args[0].t).as_long() == 0)):
            # SortedDict.popitem(0): remove and return the item with the smallest key (KeyError when empty)
            self.assumptions_used.add("sortedcontainers.SortedDict: popitem(0) removes and returns the item with the smallest key; "
                                      "otherwise it behaves like dict")
            ks = sort_of(recv.kty)
            kmin = fresh("kmin", ks)
            dom = self.dict_dom(st, recv)
            kk = z3.Const("k!sd", ks)

            def nonempty(s):
                s.assume(z3.Select(dom, kmin))
                s.assume(z3.ForAll([kk], z3.Implies(z3.Select(dom, kk), kmin <= kk)))
                kv = Val(recv.kty, kmin)

                def got(v, s2):
                    if type(v).__name__ == "DictEntryList":
                        v = self.get_list(s2, v)
                    res = []
                    for o, s3 in self.dict_del(s2, recv, kv):
                        res.extend(k(PyTup([kv, v]), s3) if o.kind == "N" else [(o, s3)])
                    return res
                return self.dict_get(s, recv, kv, got)
            return self.split(st, self.dict_len(st, recv) > 0, nonempty, lambda s: self.raise_exc(s, "KeyError", "popitem(): dictionary is empty"),
                              label="sd-nonempty")
        if m == "clear" and not args and not kwargs:
            self.dict_clear(st, recv)
            return k(PyConst(None), st)
        raise Unsupported("dict method " + m)

    def dict_sum_values(self, st, d):
        if d.vty[0] not in ("int", "real"):
            raise Unsupported("sum over non-numeric dict values")
        sm, _ = self._darr(st, d, "#sum")
        total = z3.Select(sm, d.obj)
        # trusted arithmetic lemma about finite sums: if every stored value is >= 0, the sum is >= 0 and >= every member
        val, _v = self._darr(st, d, "#val")
        dom = self.dict_dom(st, d)
        vals = z3.Select(val, d.obj)
        j = z3.Const("j!sum", sort_of(d.kty))
        kk = z3.Const("k!sum", sort_of(d.kty))
        conv = (lambda t: t) if d.vty[0] == "real" else z3.ToReal
        allpos = z3.ForAll([j], z3.Implies(z3.Select(dom, j), conv(z3.Select(vals, j)) >= 0))
        concl = z3.And(total >= 0, z3.ForAll([kk], z3.Implies(z3.Select(dom, kk), total >= conv(z3.Select(vals, kk)))))
        self.assumptions_used.add("arithmetic lemma: a finite sum of non-negative values is >= 0 and >= each of its members")
        lem = z3.Implies(allpos, concl)
        seen = st.hs.__dict__.setdefault("_sum_lemma_ids", set())
        if lem.get_id() not in seen:
            seen.add(lem.get_id())
            st.hs.axioms.append(lem)       # instance of the lemma for this (domain, values, sum) triple
        return Val(REAL, total)

    def dict_values_list(self, st, dv):
        raise Unsupported("iteration over dict values (only `for x in d.values(): x.append(e)` is summarised)")

    def dict_append_all(self, st, d, item):
        """for buf in d.values(): buf.append(item)   -- every registered list gets the item at its end"""
        if d.vty[0] != "list":
            raise Unsupported("append to non-list dict values")
        ety = d.vty[1]
        x = coerce(item, ety).t
        va, vak = self._darr(st, d, "#vala")
        vn, vnk = self._darr(st, d, "#valn")
        dom = self.dict_dom(st, d)
        kk = z3.Const("k!da", sort_of(d.kty))
        cur_a = z3.Select(va, d.obj)
        cur_n = z3.Select(vn, d.obj)
        new_a = z3.Lambda([kk], z3.If(z3.Select(dom, kk), z3.Store(z3.Select(cur_a, kk), z3.Select(cur_n, kk), x), z3.Select(cur_a, kk)))
        new_n = z3.Lambda([kk], z3.If(z3.Select(dom, kk), z3.Select(cur_n, kk) + 1, z3.Select(cur_n, kk)))
        st.hset(vak, z3.Store(va, d.obj, new_a))
        st.hset(vnk, z3.Store(vn, d.obj, new_n))

    # ---- heapq on a list (stdlib contract, assumed): the list is abstracted by its bag (multiset) of elements
    _bag_fns = {}

    def bag_term(self, st, lv):
        es = sort_of(lv.ety)
        key = str(es)
        if key not in self._bag_fns:
            self._bag_fns[key] = z3.Function("bag!" + key, z3.ArraySort(z3.IntSort(), es), z3.IntSort(), z3.ArraySort(es, z3.IntSort()))
        f = self._bag_fns[key]
        seen = st.hs.__dict__.setdefault("_bag_sorts", set())
        if key not in seen:
            seen.add(key)
            # definitional facts of "number of occurrences of k among the first n elements of a", for all a, n
            a_ = z3.Const("a!bag", z3.ArraySort(z3.IntSort(), es))
            n_ = z3.Const("n!bag", z3.IntSort())
            kk = z3.Const("k!bag", es)
            i = z3.Const("i!bag", z3.IntSort())
            sel = z3.Select(f(a_, n_), kk)
            st.hs.axioms.append(z3.ForAll([a_, n_, kk], z3.And(sel >= 0, z3.Implies(n_ <= 0, sel == 0)), patterns=[sel]))
            st.hs.axioms.append(z3.ForAll([a_, n_, i], z3.Implies(z3.And(0 <= i, i < n_), z3.Select(f(a_, n_), z3.Select(a_, i)) >= 1),
                                          patterns=[z3.MultiPattern(f(a_, n_), z3.Select(a_, i))]))
            st.hs.axioms.append(z3.ForAll([a_, n_], z3.Implies(n_ >= 1, z3.Select(f(a_, n_), z3.Select(a_, 0)) >= 1), patterns=[f(a_, n_)]))
        return f(lv.arr, z3.simplify(lv.n))

    def is_heap_term(self, lv):
        i = z3.Const("i!heap", z3.IntSort())
        return z3.ForAll([i], z3.Implies(z3.And(1 <= i, i < lv.n), z3.Select(lv.arr, (i - 1) / 2) <= z3.Select(lv.arr, i)))

    def heap_op(self, st, lst, k, push=None):
        """heapq.heappush(lst, x) / heapq.heappop(lst): needs a heap-ordered list (obligation), keeps it heap-ordered,
        adds / removes one occurrence; heappop returns lst[0], which is <= every element"""
        lv = self.get_list(st, lst)
        if lv.ety[0] not in ("int", "real"):
            raise Unsupported("heapq on non-numeric elements")
        self.assumptions_used.add("stdlib contract of heapq.heappush/heappop on a heap-ordered list (heap order kept, one occurrence "
                                  "added/removed, heappop returns the smallest element)")
        self.emit(st, "stdlib_pre", "heapq.requires_heap_order", "the list handed to heapq is heap-ordered", self.is_heap_term(lv))
        b_old = self.bag_term(st, lv)
        new_arr = fresh("heap", lv.arr.sort())
        if push is not None:
            x = coerce(push, lv.ety).t
            nl = LVal(lv.ety, new_arr, lv.n + 1, lv.kind)
            st.assume(self.is_heap_term(nl))
            st.assume(self.bag_term(st, nl) == z3.Store(b_old, x, z3.Select(b_old, x) + 1))
            self.set_list(st, lst, nl)
            return k(PyConst(None), st)

        def nonempty(s):
            r = z3.Select(lv.arr, 0)
            nl = LVal(lv.ety, new_arr, lv.n - 1, lv.kind)
            s.assume(self.is_heap_term(nl))
            s.assume(self.bag_term(s, nl) == z3.Store(b_old, r, z3.Select(b_old, r) - 1))
            kk = z3.Const("k!min", sort_of(lv.ety))
            s.assume(z3.ForAll([kk], z3.Implies(z3.Select(b_old, kk) >= 1, r <= kk)))
            self.set_list(s, lst, nl)
            return k(Val(lv.ety, r), s)
        return self.split(st, lv.n > 0, nonempty, lambda s: self.raise_exc(s, "IndexError", "index out of range"), label="heap-nonempty")

    def bi_islice(self, args, kwargs, st, k):
        from .flow import IsliceVal
        if len(args) != 2 or kwargs:
            raise Unsupported("islice with start/step")
        self.assumptions_used.add("asyncstdlib.islice(src, n): yields the first n items of src (none, without asking src, for n <= 0), "
                                  "asks for no further item after the n-th, ends when src ends")
        return self.unopt(args[1], st, lambda n, s: k(IsliceVal(args[0], self.num(n)), s))

    def bi_ExitStack(self, args, kwargs, st, k):
        if args or kwargs or "ExitStack" not in self.reg.models:
            raise Unsupported("contextlib.ExitStack (no abstract model registered)")
        return k(self.alloc(st, "ExitStack", "xstack"), st)

    def bi_SortedDict(self, args, kwargs, st, k):
        if args or kwargs:
            raise Unsupported("SortedDict(...) with arguments")
        return k(DictLit({}, sorted=True), st)

    def bi_heappush(self, args, kwargs, st, k):
        return self.heap_op(st, args[0], k, push=args[1])

    def bi_heappop(self, args, kwargs, st, k):
        return self.heap_op(st, args[0], k)

    # ---- DictEntryList as a list reference
    def get_list(self, st, lv):
        if isinstance(lv, DictEntryList):
            va, _ = self._darr(st, lv.d, "#vala")
            vn, _ = self._darr(st, lv.d, "#valn")
            return LVal(lv.ety, z3.Select(z3.Select(va, lv.d.obj), lv.k), z3.Select(z3.Select(vn, lv.d.obj), lv.k))
        return super().get_list(st, lv)

    def set_list(self, st, ref, lv):
        if isinstance(ref, DictEntryList):
            va, vak = self._darr(st, ref.d, "#vala")
            vn, vnk = self._darr(st, ref.d, "#valn")
            st.hset(vak, z3.Store(va, ref.d.obj, z3.Store(z3.Select(va, ref.d.obj), ref.k, lv.arr)))
            st.hset(vnk, z3.Store(vn, ref.d.obj, z3.Store(z3.Select(vn, ref.d.obj), ref.k, lv.n)))
            return
        return super().set_list(st, ref, lv)

    def is_listlike(self, v):
        return isinstance(v, DictEntryList) or super().is_listlike(v)
