"""Specification evaluation, contract application at call sites, invariants, function verification."""
import ast
import z3
from .core import *   # noqa
from .base import Outcome, N_, DictLit, DictFld, LOOP, Obligation
from .expr import EmptyList, OptList, GenExp
from .repo import BUILTIN_EXC, FuncInfo
from .state import Frame, Snap, State, HeapSpace
from . import dsl


class ContractMixin:
    # ================================================================== obligations
    def emit(self, st, kind, name, clause, goal, props=None, info=None, extra_hyp=None):
        goal = z3.simplify(goal) if z3.is_expr(goal) else z3.BoolVal(bool(goal))
        pc = list(st.hs.axioms) + list(st.pc)
        if extra_hyp is not None:
            pc = pc + list(extra_hyp)
        if z3.is_true(goal):
            # still recorded: trivially discharged
            pass
        sig = self.path_sig(st)
        c = self.cur_contract
        pr = list(props) if props else (list(c.props) if c is not None else [])
        ob = Obligation("%s/%s/%s" % (self.cur_func.fqn, name, sig[1]), self.cur_func.fqn, kind, clause, pc, goal,
                        sig[0], props=pr, info=info or {})
        ob.locals_view = self.locals_view(st)
        self.obligations.append(ob)
        return ob

    def path_sig(self, st):
        import hashlib
        tr = [t for t in st.trace]
        text = ",".join(tr)
        return text, hashlib.sha1(text.encode()).hexdigest()[:8]

    def locals_view(self, st):
        out = {}
        if not st.frames:
            return out
        for n, v in list(self.entry_params.items()):
            if isinstance(v, Val):
                out["param:" + n] = v.t
        return out

    # ================================================================== spec evaluation
    def spec_frame(self, st, extra=None, top=True):
        fr = Frame(self.cur_func, self.cur_func.module if self.cur_func else None, spec=True)
        fr.locals = {}
        if st.frames and isinstance(st.frames[0].func, FuncInfo) and st.frames[0].func is self.cur_func:
            fr.locals.update(st.frames[0].locals)
        fr.locals.update(self.entry_params)
        fr.locals["me"] = Val(ANY, self.me_const)
        if extra:
            fr.locals.update(extra)
        fr.label = "own"          # a clause of the function under verification itself
        return fr

    def eval_clause(self, text, st, extra=None, frame=None):
        """clause string -> z3 Bool over the current state (forks merged)"""
        node = dsl.parse_expr(text) if isinstance(text, str) else text
        fr = frame or self.spec_frame(st, extra)
        base = st.copy()
        base.frames = base.frames + [fr]
        base.in_spec += 1
        n0 = len(base.pc)
        results = []

        def kk(v, s):
            delta = s.pc[n0:]
            for f in delta:
                if f.get_id() in s.fact_ids and f.get_id() not in st.fact_ids:
                    st.assume_fact(f)       # closed facts (dispatch definitions) become hypotheses of the caller
            results.append((v, [d for d in delta if d.get_id() not in s.fact_ids]))
            return []
        outs = self.truth(node, base, lambda s: kk(mk_bool(True), s), lambda s: kk(mk_bool(False), s))
        for o, s in outs:
            if o.kind == "X":
                raise SpecError("clause %r raises %s" % (text, o.val))
        if not results:
            # every branch infeasible under pc: clause is vacuously anything
            return z3.BoolVal(True)
        terms = []
        for v, delta in results:
            t = self.as_bool_term(v)
            terms.append(z3.And(*(delta + [t])) if delta else t)
        return z3.simplify(z3.Or(*terms)) if len(terms) > 1 else terms[0]

    def eval_clause_top(self, text, st):
        return self.eval_clause(text, st)

    def eval_spec_value(self, text, st, top=True, snap=None, extra=None):
        node = dsl.parse_expr(text)
        fr = self.spec_frame(st, extra)
        base = st.copy()
        base.frames = base.frames + [fr]
        base.in_spec += 1
        if snap is not None:
            base.heap_override = snap
        res = []
        self.ev(node, base, lambda v, s: res.append(v) or [])
        if len(res) != 1:
            raise SpecError("spec expression %r does not evaluate to a single value" % text)
        v = res[0]
        if isinstance(v, (Cell, FldList)):
            v = self.get_list(base, v)
        return v

    def same_value(self, st, a, b):
        if isinstance(a, LVal) and isinstance(b, LVal):
            return self.list_eq(st, a, b)
        if isinstance(a, Val) and isinstance(b, Val):
            bb = coerce(b, a.ty) if a.ty != b.ty else b
            return a.t == bb.t
        if isinstance(a, PyConst) and isinstance(b, PyConst):
            return z3.BoolVal(a.v == b.v)
        raise Unsupported("stable expression of kind %s" % type(a).__name__)

    # ---- spec builtins
    def bi_old(self, args_nodes, st, k):
        raise Unsupported("old() handled syntactically")

    def ev_spec_call(self, e, st, k):
        """spec-only forms that need unevaluated arguments; returns None if e is not such a form"""
        if not (isinstance(e.func, ast.Name) and st.frame.spec):
            return None
        name = e.func.id
        if name == "old":
            snap = st.old
            return self.ev_in_snap(e.args[0], st, snap, k)
        if name == "suspensions":
            return k(Val(INT, st.susp), st)
        if name == "user_start_time":
            return k(Val(REAL, st.user_start_time if st.user_start_time is not None else self.loop_field(st, "time")), st)
        if name == "user_code_ran":
            return k(mk_bool(st.user_awaits > 0), st)
        if name == "step_time":
            return k(Val(REAL, st.step_time if st.step_time is not None else self.loop_field_at(st, st.old, "time")), st)
        if name == "prev_tick":
            return k(Val(REAL, st.tick_time if st.tick_time is not None else self.loop_field_at(st, st.old, "time")), st)
        if name == "at_iteration_start":
            return self.ev_in_snap(e.args[0], st, st.labels.get("iter_snap") or st.old, k)
        if name == "at_step_start":
            return self.ev_in_snap(e.args[0], st, st.step_snap or st.old, k)
        if name == "at_last_suspension":
            return self.ev_in_snap(e.args[0], st, st.last_susp or st.old, k)
        if name == "implies":
            a = self.eval_clause(e.args[0], st, frame=st.frame)
            b = self.eval_clause(e.args[1], st, frame=st.frame)
            return k(mk_bool(z3.Implies(a, b)), st)
        if name == "iff":
            a = self.eval_clause(e.args[0], st, frame=st.frame)
            b = self.eval_clause(e.args[1], st, frame=st.frame)
            return k(mk_bool(a == b), st)
        if name == "ite":
            return self.truth(e.args[0], st, lambda s: self.ev(e.args[1], s, k), lambda s: self.ev(e.args[2], s, k))
        if name in ("forall", "exists"):
            return self.spec_quant(e, st, k, name == "forall")
        if name in ("forall_new", "forall_new_exact"):
            # every object of the class allocated by this call
            def with_cls(cv, s):
                lam = e.args[1]
                terms = []
                if getattr(s, "callee_view", False):
                    # clause of a callee applied at a call site: its private objects are not the caller's
                    return k(mk_bool(True), s)
                for (o, oc) in s.new_objs:
                    if (oc == cv.name) if name == "forall_new_exact" else self.static_subclass_safe(oc, cv.name):
                        fr = s.frame.copy()
                        fr.locals[lam.args.args[0].arg] = Val(REF(oc), o)
                        terms.append(self.eval_clause(lam.body, s, frame=fr))
                return k(mk_bool(z3.And(*terms) if terms else z3.BoolVal(True)), s)
            return self.ev(e.args[0], st, with_cls)
        if name == "only_new_changed":
            # for objects that existed at old(): the listed fields are unchanged (objects created by the call are free)
            terms = []
            x = z3.Const("x!onc", RefS)
            i = z3.Const("i!onc", z3.IntSort())
            for a in e.args:
                key = a.value
                hks = self.heap_keys_for(key)
                names = [hk for hk, _s in hks]
                for hk, sort in hks:
                    cur = st.harr(hk, sort)
                    prev = st.heap_override
                    st.heap_override = st.old
                    try:
                        old = st.harr(hk, sort)
                    finally:
                        st.heap_override = prev
                    if hk.endswith("#a"):
                        nk = hk[:-2] + "#n"
                        ncur = st.harr(nk, z3.ArraySort(RefS, z3.IntSort()))
                        body = z3.ForAll([i], z3.Implies(z3.And(0 <= i, i < z3.Select(ncur, x)),
                                                         z3.Select(z3.Select(cur, x), i) == z3.Select(z3.Select(old, x), i)))
                    else:
                        body = z3.Select(cur, x) == z3.Select(old, x)
                    decl = key.split(".")[0]
                    terms.append(z3.ForAll([x], z3.Implies(z3.And(x != NULL, birth(x) <= st.old.bound,
                                                                  subclass(cls_of(x), cls_const(decl))), body)))
            return k(mk_bool(z3.And(*terms)), st)
        if name == "at_loop_entry":
            return self.ev_in_snap(e.args[0], st, st.labels.get("loop_entry") or st.old, k)
        if name in ("unchanged", "unchanged_in_loop"):
            terms = []
            ref_snap = st.old if name == "unchanged" else (st.labels.get("loop_entry") or st.old)
            for a in e.args:
                key = a.value
                for hk, sort in self.heap_keys_for(key):
                    cur = st.harr(hk, sort)
                    prev = st.heap_override
                    st.heap_override = ref_snap
                    try:
                        old = st.harr(hk, sort)
                    finally:
                        st.heap_override = prev
                    terms.append(cur == old)
            return k(mk_bool(z3.And(*terms)), st)
        if name == "unchanged_except":
            # unchanged_except("Cls.field", obj, ...): only the listed objects' entries may differ from old()
            key = e.args[0].value

            def with_objs(objs, s):
                terms = []
                x = z3.Const("x!ue", RefS)
                for hk, sort in self.heap_keys_for(key):
                    cur = s.harr(hk, sort)
                    prev = s.heap_override
                    s.heap_override = s.old
                    try:
                        old = s.harr(hk, sort)
                    finally:
                        s.heap_override = prev
                    guards = [x != (self.singleton_ref(o).t if isinstance(o, Singleton) else o.t) for o in objs]
                    terms.append(z3.ForAll([x], z3.Implies(z3.And(*guards) if guards else z3.BoolVal(True),
                                                          z3.Select(cur, x) == z3.Select(old, x))))
                return k(mk_bool(z3.And(*terms)), s)
            return self.ev_list(e.args[1:], st, with_objs)
        if name == "is_a":
            # plain (MRO) instance test, no metaclass hooks
            def with_vals2(vs, s):
                v, c = vs
                return k(mk_bool(z3.And(v.t != NULL, subclass(cls_of(v.t), self.class_term(c)))), s)
            return self.ev_list(e.args, st, with_vals2)
        if name == "cast":
            def with_vals(vs, s):
                v, c = vs
                return k(Val(("ref", c.name) + tuple(v.ty[2:]), v.t), s)
            return self.ev_list(e.args, st, with_vals)
        if name == "fresh_obj":
            # allocated during this call: born after everything that existed at old()
            return self.ev(e.args[0], st, lambda v, s: k(mk_bool(z3.And(v.t != NULL, birth(v.t) > s.old.bound)), s))
        if name == "mine":
            # created by this invocation of the function under verification (syntactic allocation sites on this path)
            def is_mine(v, s):
                if not isinstance(v, Val):
                    return k(mk_bool(False), s)
                return k(mk_bool(z3.Or(*[v.t == o for (o, _oc) in s.new_objs]) if s.new_objs else z3.BoolVal(False)), s)
            return self.ev(e.args[0], st, is_mine)
        if name == "yields":
            # number of items this async generator has handed out so far
            return k(Val(INT, st.yields), st)
        if name == "allocated":
            # the object exists in the current state (it was created before now)
            return self.ev(e.args[0], st, lambda v, s: k(mk_bool(z3.And(v.t != NULL, birth(v.t) <= s.clock)), s))
        if name == "typeof":
            return self.ev(e.args[0], st, lambda v, s: k(self.type_of(v), s))
        if name == "zero_map":
            # the map of the same type that sends every key to 0
            def zm(v, s):
                if not (isinstance(v, Val) and v.ty[0] == "map" and v.ty[2][0] in ("int", "real")):
                    raise SpecError("zero_map needs a numeric map")
                zero = z3.IntVal(0) if v.ty[2][0] == "int" else z3.RealVal(0)
                return k(Val(v.ty, z3.K(sort_of(v.ty[1]), zero)), s)
            return self.ev(e.args[0], st, zm)
        if name == "bag":
            # multiset view of a list: element -> number of occurrences (uninterpreted, with its definitional facts)
            def mk_bag(v, s):
                lv = self.as_lval(s, v)
                return k(Val(("map", lv.ety, INT), self.bag_term(s, lv)), s)
            return self.ev(e.args[0], st, mk_bag)
        if name == "is_heap":
            return self.ev(e.args[0], st, lambda v, s: k(mk_bool(self.is_heap_term(self.as_lval(s, v))), s))
        if name == "seq_eq":
            return self.ev_list(e.args, st, lambda vs, s: k(mk_bool(self.list_eq(s, vs[0], vs[1])), s))
        if name == "exact_class":
            def done(vs, s):
                return k(mk_bool(cls_of(vs[0].t) == self.class_term(vs[1])), s)
            return self.ev_list(e.args, st, done)
        return None

    def ev_in_snap(self, node, st, snap, k):
        if snap is None:
            raise SpecError("old() without entry snapshot")
        prev = st.heap_override
        st.heap_override = snap
        # locals of the verified function as they were at the snapshot (parameters keep their entry values)
        fr = st.frame
        saved_locals = None
        if fr.spec and snap.locals is not None and getattr(fr, "label", None) == "own":
            # clauses of the function under verification: its locals as they were at the snapshot (also parameters: a
            # reassigned parameter had its own value then).  Frames of callee contracts keep their own bindings.
            saved_locals = dict(fr.locals)
            for n, v in snap.locals.items():
                fr.locals[n] = v

        def done(v, s):
            if saved_locals is not None:
                s.frame.locals.clear()
                s.frame.locals.update(saved_locals)
            if isinstance(v, (Cell, FldList)) or type(v).__name__ == "DictEntryList":
                v = self.get_list(s, v)
            if isinstance(v, OptList):
                v = OptList(v.none, self.get_list(s, v.lst))
            s.heap_override = prev
            return k(v, s)
        outs = self.ev(node, st, done)
        return outs

    def spec_quant(self, e, st, k, is_all):
        """forall(Type|int|list, lambda x: body)"""
        dom, lam = e.args[0], e.args[1]
        if not isinstance(lam, ast.Lambda):
            raise SpecError("forall/exists need a lambda")
        names = [a.arg for a in lam.args.args]

        def with_dom(dv, s):
            bound = []
            guards = []
            vals = []
            if isinstance(dv, FuncVal) and dv.name == "anything":
                # every value of the reference sort, no guards (keys of dicts etc.)
                for n in names:
                    x = fresh("q_" + n, RefS)
                    vals.append(Val(ANY, x))
                    bound.append(x)
            elif isinstance(dv, ClsVal) or (isinstance(dv, FuncVal) and dv.name in ("int", "object", "real", "float")):
                for n in names:
                    if isinstance(dv, FuncVal) and dv.name == "int":
                        x = fresh("q_" + n, z3.IntSort())
                        vals.append(Val(INT, x))
                    elif isinstance(dv, FuncVal) and dv.name in ("real", "float"):
                        x = fresh("q_" + n, z3.RealSort())
                        vals.append(Val(REAL, x))
                    else:
                        x = fresh("q_" + n, RefS)
                        cn = dv.name if isinstance(dv, ClsVal) else None
                        if cn == "object":
                            cn = None
                        vals.append(Val(REF(cn), x))
                        guards.append(x != NULL)
                        guards.append(birth(x) <= s.clock)      # objects that exist now
                        if cn is not None:
                            guards.append(subclass(cls_of(x), cls_const(cn)))
                    bound.append(x)
            elif self.is_listlike(dv):
                lv = self.as_lval(s, dv)
                if len(names) == 1:
                    i = fresh("q_i", z3.IntSort())
                    bound.append(i)
                    guards += [0 <= i, i < lv.n]
                    vals.append(Val(lv.ety, z3.Select(lv.arr, i)))
                else:
                    i = fresh("q_" + names[0], z3.IntSort())
                    bound.append(i)
                    guards += [0 <= i, i < lv.n]
                    vals.append(Val(INT, i))
                    vals.append(Val(lv.ety, z3.Select(lv.arr, i)))
            else:
                raise SpecError("quantifier domain %r" % (dv,))
            fr = s.frame.copy()
            fr.locals.update(dict(zip(names, vals)))
            body = self.eval_clause(lam.body, s, frame=fr)
            g = z3.And(*guards) if guards else z3.BoolVal(True)
            t = z3.ForAll(bound, z3.Implies(g, body)) if is_all else z3.Exists(bound, z3.And(g, body))
            return k(mk_bool(t), s)
        return self.ev(dom, st, with_dom)

    # ================================================================== invariants
    def classes_with_invariants(self):
        return list(self.reg.invariants)

    def inv_text(self, cn):
        return self.reg.invariants.get(cn, [])

    def in_scope(self, scope, cn, iname):
        if scope is None:
            return True
        return cn in scope or (cn + "." + iname) in scope

    def base_for(self, st, cn, iname):
        return st.inv_over.get((cn, iname), st.inv_base)

    def touch(self, st, obj, guard=False, depth=1):
        if st.in_spec or self.no_inv_assume or not isinstance(obj, Val) or obj.ty[1] is None:
            return
        if obj.t.get_id() in st.constructing:
            return
        if depth > 0 and st.inv_base is not None:
            key0 = ("deep", obj.t.get_id(), id(st.inv_base))
            if key0 not in st.touched:
                st.touched = st.touched | {key0}
                for n in self.mro_names(obj.ty[1]):
                    m = self.reg.models.get(n)
                    if m is None:
                        continue
                    for f, ty in list(m.fields.items()) + list(m.ghost.items()):
                        if ty[0] == "ref" and ty[1] is not None and any(self.inv_text(x) for x in self.mro_names(ty[1])):
                            s2 = st.copy()
                            s2.heap_override = st.inv_base
                            t = self.read_field(s2, obj.t, n + "." + f, ty).t
                            self.touch(st, Val(REF(ty[1]), t), guard=True, depth=depth - 1)
        cn = obj.ty[1]
        try:
            ci = self.class_info(cn)
        except KeyError:
            ci = None
        names = [c.name for c in self.repo.mro(ci)] if ci is not None else [cn]
        for n in names:
            for (iname, text, _p) in self.inv_text(n):
                if not self.in_scope(self.cur_scope, n, iname):
                    continue
                base = self.base_for(st, n, iname)
                key = (obj.t.get_id(), n, iname, id(base))
                if key in st.touched:
                    continue
                st.touched = st.touched | {key}
                if base is None:
                    continue
                f = self.inv_formula(st, n, text, obj, snap=base)
                st.assume(z3.Implies(obj.t != NULL, f) if guard else f)

    def loop_field_at(self, st, snap, name):
        s2 = st.copy()
        s2.heap_override = snap
        return self.loop_field(s2, name)

    def assume_kernel_facts(self, st, resume=False):
        for (name, expr, why, on_resume) in self.reg.kernel_facts:
            e = on_resume if resume else expr
            if e is None:
                continue
            self.assumptions_used.add("kernel fact %s: %s (%s)" % (name, e, why))
            st.assume(self.eval_clause(e, st))

    def assume_invariants_eagerly(self, st):
        """at a consistent point (entry / after interference): invariants of parameters and own objects"""
        if self.no_inv_assume:
            return
        objs = []
        for v in self.entry_params.values():
            if isinstance(v, Val) and v.ty[0] == "ref" and v.ty[1] is not None:
                objs.append(v)
        for (o, oc) in st.new_objs:
            objs.append(Val(REF(oc), o))
        seen = set()

        def visit(v, depth):
            if v.t.get_id() in seen:
                return
            seen.add(v.t.get_id())
            self.touch(st, v, guard=True)
            if depth == 0:
                return
            # the objects its reference fields point to
            for n in self.mro_names(v.ty[1]):
                m = self.reg.models.get(n)
                if m is None:
                    continue
                for f, ty in list(m.fields.items()) + list(m.ghost.items()):
                    if ty[0] == "ref" and ty[1] is not None and any(self.inv_text(x) for x in self.mro_names(ty[1])):
                        s2 = st.copy()
                        s2.heap_override = st.inv_base
                        t = self.read_field(s2, v.t, n + "." + f, ty).t
                        visit(Val(REF(ty[1]), t), depth - 1)
        for v in objs:
            visit(v, 2)

    def inv_formula(self, st, cn, text, obj, snap=None):
        if snap is not None:
            # invariants over an immutable snapshot: evaluate once for a placeholder object, then substitute
            cache = self.__dict__.setdefault("_inv_tpl", {})
            key = (cn, text, id(snap))
            ent = cache.get(key)
            if ent is None or ent[0] is not snap:
                ph = z3.Const("inv!self!%s" % cn, RefS)
                tpl = self.inv_formula_raw(st, cn, text, Val(REF(cn), ph), snap)
                ent = (snap, ph, tpl)
                cache[key] = ent
                if len(cache) > 4000:
                    cache.clear()
            return z3.substitute(ent[2], (ent[1], obj.t))
        # same construction for the current heap, so that unchanged invariants stay syntactically identical
        ph = z3.Const("inv!self!%s" % cn, RefS)
        tpl = self.inv_formula_raw(st, cn, text, Val(REF(cn), ph), None)
        return z3.substitute(tpl, (ph, obj.t))

    def inv_formula_raw(self, st, cn, text, obj, snap=None):
        fr = Frame(self.cur_func, None, spec=True)
        fr.locals = {"self": Val(REF(cn), obj.t), "me": Val(ANY, self.me_const)}
        base = st.copy()
        if snap is not None:
            base.heap_override = snap
        base.touched = st.touched
        return self.eval_clause(text, base, frame=fr)

    def all_invariant_hyps(self, st, base):
        """induction hypothesis, instantiated by hand: in the base heap every invariant holds for the witness
        of every class and for the objects its reference fields point to (depth 1)"""
        out = []
        seen = set()

        def add_obj(term, cn, guard):
            key = (term.get_id(), cn)
            if key in seen:
                return
            seen.add(key)
            for n in self.mro_names(cn):
                for (iname, text, _p) in self.inv_text(n):
                    if not self.in_scope(self.cur_scope, n, iname):
                        continue
                    bases = [self.base_for(st, n, iname)]
                    for (hb, hscope) in st.inv_hist:
                        if self.in_scope(hscope, n, iname) and all(hb is not x for x in bases):
                            bases.append(hb)
                    for b in bases:
                        if b is None:
                            continue
                        body = self.inv_formula(st, n, text, Val(REF(cn), term), snap=b)
                        # the object must have existed at that consistent point
                        eg = birth(term) <= b.bound
                        g = eg if guard is None else z3.And(guard, eg)
                        out.append(z3.Implies(g, body) if g is not None else body)
        for cn in self.classes_with_invariants():
            w = self.witness(cn)
            out += [w != NULL, subclass(cls_of(w), cls_const(cn)), birth(w) <= base.bound]
            add_obj(w, cn, None)
        # objects this activity created before the base snapshot satisfied their invariants there as well
        for (o, oc) in st.new_objs:
            if any(self.inv_text(n) for n in self.mro_names(oc)):
                add_obj(o, oc, None)
        for cn in self.classes_with_invariants():
            w = self.witness(cn)
            for n in self.mro_names(cn):
                m = self.reg.models.get(n)
                if m is None:
                    continue
                for f, ty in list(m.fields.items()) + list(m.ghost.items()):
                    if ty[0] == "ref" and ty[1] is not None and any(self.inv_text(x) for x in self.mro_names(ty[1])):
                        s2 = st.copy()
                        s2.heap_override = base
                        t = self.read_field(s2, w, n + "." + f, ty).t
                        add_obj(t, ty[1], z3.And(t != NULL, subclass(cls_of(t), cls_const(ty[1]))))
        return out

    def mro_names(self, cn):
        try:
            ci = self.class_info(cn)
        except KeyError:
            ci = None
        return [c.name for c in self.repo.mro(ci)] if ci is not None else [cn]

    def witness(self, cn):
        if cn not in self.witnesses:
            w = z3.Const("wit!" + cn, RefS)
            self.witnesses[cn] = w
        return self.witnesses[cn]

    def assert_invariants(self, st, where, scope=None):
        """every class invariant holds for (a) an arbitrary pre-existing object (witness) and (b) new objects"""
        if self.no_inv_check:
            return
        if scope is None:
            scope = self.cur_scope
        elif self.cur_scope is not None:
            scope = [x for x in scope if x in self.cur_scope or x.split(".")[0] in self.cur_scope]
        base0 = st.inv_base
        all_hyps = self.all_invariant_hyps(st, base0) if base0 is not None else []
        for cn in self.classes_with_invariants():
            for (iname, text, props) in self.inv_text(cn):
                if not self.in_scope(scope, cn, iname):
                    continue
                base = self.base_for(st, cn, iname)
                w = self.witness(cn)
                wv = Val(REF(cn), w)
                hyp_guard = [w != NULL, subclass(cls_of(w), cls_const(cn))] + all_hyps
                if self.init_self is not None:
                    # the object under construction had no invariants before: witness = any *other* object
                    hyp_guard.append(w != self.init_self.t)
                    if self.init_self.t.get_id() not in st.constructing and self.static_subclass_safe(self.init_self.ty[1], cn):
                        f0 = self.inv_formula(st, cn, text, Val(REF(self.init_self.ty[1]), self.init_self.t))
                        self.emit(st, "invariant", "inv[%s.%s]@%s(self)" % (cn, iname, where), text, f0,
                                  props=props or None, extra_hyp=all_hyps)
                if base is not None:
                    before = self.inv_formula(st, cn, text, wv, snap=base)
                else:
                    before = z3.BoolVal(True)
                now = self.inv_formula(st, cn, text, wv)
                if before.eq(now):
                    pass
                else:
                    self.emit(st, "invariant", "inv[%s.%s]@%s" % (cn, iname, where), text, now,
                              props=props or None, extra_hyp=hyp_guard + [before])
                for (o, oc) in st.new_objs:
                    if o.get_id() in st.constructing:
                        continue      # its __init__ has not run yet
                    if self.static_subclass_safe(oc, cn):
                        f = self.inv_formula(st, cn, text, Val(REF(oc), o))
                        self.emit(st, "invariant", "inv[%s.%s]@%s(new %s)" % (cn, iname, where, oc), text, f,
                                  props=props or None, extra_hyp=all_hyps)

    # ================================================================== contract application (call site)
    def parse_modifies(self, c, st, frame):
        """-> list of (key, obj-term or None)"""
        out = []
        for m in c.modifies:
            key, _, at = m.partition("@")
            key = key.strip()
            obj = None
            if at:
                v = self.eval_value_in(at.strip(), st, frame)
                if isinstance(v, Singleton):
                    v = self.singleton_ref(v)
                obj = v.t
            out.append((key, obj))
        return out

    def eval_value_in(self, text, st, frame):
        node = dsl.parse_expr(text)
        base = st.copy()
        base.frames = base.frames + [frame]
        base.in_spec += 1
        res = []
        self.ev(node, base, lambda v, s: res.append(v) or [])
        if len(res) != 1:
            raise SpecError("expression %r does not evaluate to one value" % text)
        return res[0]

    def heap_keys_for(self, key):
        """declared field key 'Cls.f' -> concrete heap array keys with sorts"""
        c, _, f = key.partition(".")
        m = self.reg.models.get(c)
        if m is None:
            raise SpecError("modifies: unknown class %s" % c)
        ty = m.fields.get(f, m.ghost.get(f))
        if ty is None:
            raise SpecError("modifies: unknown field %s" % key)
        if ty[0] == "list":
            return [(key + "#a", z3.ArraySort(RefS, self.list_sorts(ty[1]))), (key + "#n", z3.ArraySort(RefS, z3.IntSort()))]
        if ty[0] == "opt" and ty[1][0] == "list":
            return [(key + "#a", z3.ArraySort(RefS, self.list_sorts(ty[1][1]))), (key + "#n", z3.ArraySort(RefS, z3.IntSort())),
                    (key + "#none", z3.ArraySort(RefS, z3.BoolSort()))]
        if ty[0] == "dict":
            return self.dict_heap_keys(key, ty)
        if ty[0] == "set":
            return [(key + "#mem", self.set_sort())]
        return [(key, z3.ArraySort(RefS, sort_of(ty)))]

    def contract_frame(self, c, info, bound, st):
        fr = Frame(info, info.module, spec=True)
        fr.locals = {}
        for n, v in bound.items():
            ty = c.params.get(n)
            fr.locals[n] = self.coerce_param(st, v, ty) if ty is not None else v
        fr.locals["me"] = Val(ANY, self.me_const)
        return fr

    def coerce_param(self, st, v, ty):
        if isinstance(ty, str):
            return v      # 'class:X' / 'singleton:x' parameters are passed through
        if ty[0] == "list":
            if isinstance(v, EmptyList) or (isinstance(v, PyTup) and not v.items):
                return self.empty_list(ty[1])
            return self.as_lval(st, v, ty[1])
        if isinstance(v, PyTup) and ty[0] == "tup":
            return tup_mk(ty, v.items)
        if isinstance(v, CoroVal):
            return self.coro_ref(st, v)
        if isinstance(v, Singleton):
            return self.singleton_ref(v)
        if isinstance(v, (FuncVal,)):
            return v
        r = coerce(v, ty)
        if isinstance(v, Val) and v.ty[0] == "ref" and ty[0] == "ref" and v.ty[1] is not None and ty[1] is not None \
                and v.ty[1] != ty[1] and self.static_subclass_safe(v.ty[1], ty[1]):
            # keep the caller's more specific static class: clauses such as bool(self) then use the concrete method
            r = Val(("ref", v.ty[1]) + tuple(ty[2:]), r.t)
        return r

    def apply_contract(self, c, info, bound, st, k, direct=False):
        """modular call: prove requires, havoc frame, assume ensures (one successor per declared outcome)"""
        self.used_contracts.add(c.fqn)
        if c.assumed or c.fqn.startswith("abstract:"):
            self.assumptions_used.add("assumed contract (not verified against a body): %s%s" % (c.fqn, (" -- " + c.note) if c.note else ""))
        fr = self.contract_frame(c, info, bound, st)
        if c.pure and st.in_spec > 0 and not c.requires and not c.raises and c.ensures:
            # functional contract used inside a specification / pure evaluation: `result == E` defines the value
            node = dsl.parse_expr(c.ensures[0])
            if isinstance(node, ast.Compare) and len(node.ops) == 1 and isinstance(node.ops[0], ast.Eq) and \
                    isinstance(node.left, ast.Name) and node.left.id == "result":
                nf = len(st.frames)
                st.frames.append(fr)

                def fdone(v, s):
                    del s.frames[nf:]
                    return k(v, s)
                return self.trim_frames(self.ev(node.comparators[0], st, fdone), nf)
        st.note("call " + info.qualname)
        for i, r in enumerate(c.requires):
            goal = self.eval_clause(r, st, frame=fr)
            self.emit(st, "call_pre", "call[%s].requires[%d]" % (info.qualname, i), r, goal)
        if direct:
            for i, r in enumerate(c.requires_direct):
                goal = self.eval_clause(r, st, frame=fr)
                self.emit(st, "call_pre", "call[%s].requires_direct[%d]" % (info.qualname, i), r, goal)
        suspends = c.suspends is not None and (c.suspends[1] is None or c.suspends[1] > 0)
        if not c.pure and not c.no_invariants:
            # a callee that may suspend (or runs foreign code) makes this call a yield point: everything must hold
            self.assert_invariants(st, where="call " + info.qualname, scope=None if (suspends or c.havoc_all) else c.inv_scope)
        if suspends:
            self.at_suspension_for_call(st, info)
        pre = st.snap()
        st_pre_bases = self.bases_of(st)
        old_time = self.loop_field(st, "time") if suspends else None
        outs = []
        variants = [("normal", None, None)]
        for en, spec in c.raises.items():
            variants.append(("raise", en, spec))
        if suspends:
            variants.append(("signal", None, None))
            variants.append(("close", None, None))
        elif c.suspends is not None:
            # coroutine that never suspends can still not be interrupted: no signal outcomes
            pass
        whens = []
        for en, spec in c.raises.items():
            w = spec.get("when")
            whens.append(self.eval_clause(w, st, frame=fr) if w else None)
        n_before = len(outs)
        st_guard = st.copy()
        vacuous = [True]
        for vi, (kind, en, spec) in enumerate(variants):
            s = st.copy() if vi < len(variants) - 1 else st
            s.note("%s:%s" % (info.qualname, kind if en is None else "raise " + en))
            # --- frame
            if c.havoc_all:
                t0 = self.loop_field(s, "time")
                a0 = self.loop_field(s, "activity")
                self.havoc_heap(s, full=True, reason="sync interference " + info.qualname, pre=pre)
                s.assume(self.loop_field(s, "time") == t0)
                s.assume(self.loop_field(s, "activity") == a0)
                s.last_susp_sync = True
                s.inv_base = s.snap()
                s.inv_over = {}
                s.inv_hist = ()
                s.touched = frozenset()
                self.assume_invariants_eagerly(s)
            elif kind in ("signal", "close") or (kind in ("normal",) and suspends) or (kind == "raise" and suspends and spec.get("suspended", True)):
                self.havoc_heap(s, full=True, reason="call " + info.qualname, pre=pre)
                s.assume(self.loop_field(s, "time") >= old_time)
                n = fresh("csusp", z3.IntSort())
                lo, hi = c.suspends
                if kind == "normal":
                    s.assume(n >= lo)
                    if hi is not None:
                        s.assume(n <= hi)
                else:
                    s.assume(n >= (1 if kind in ("signal", "close") else 0))
                s.susp = s.susp + n
                s.last_susp = s.snap()
                s.inv_base = s.last_susp
                s.inv_over = {}
                s.inv_hist = ()
                s.touched = frozenset()
                self.assume_invariants_eagerly(s)
                if kind == "normal":
                    self.assume_kernel_facts(s)
            else:
                mods = self.parse_modifies(c, st, fr)
                # (the abstract truth values are refreshed by the heap writes below: completely for whole-field
                #  effects, for the objects not older than the target for `Class.field@obj` effects)
                if not c.pure and self.may_allocate(c, info):
                    nb = fresh("clock", z3.IntSort())
                    s.assume(nb >= s.clock)
                    s.clock = nb
                for key, obj in mods:
                    for hk, sort in self.heap_keys_for(key):
                        cur = s.harr(hk, sort)
                        fr_arr = fresh("Hm!" + hk, sort)
                        for ax in self.born_before(fr_arr, s.clock, hk):
                            s.assume(ax)
                        if obj is None:
                            s.hset(hk, fr_arr)
                        else:
                            s.hset(hk, z3.Store(cur, obj, z3.Select(fr_arr, obj)))
                        if hk.endswith("#n"):
                            x = z3.Const("x!mn", RefS)
                            s.assume(z3.ForAll([x], z3.Select(s.heap[hk], x) >= 0))
            if not c.pure and not c.no_invariants:
                post = s.snap()
                if not (kind in ("signal", "close") or suspends):
                    s.inv_hist = s.inv_hist + ((pre, None if not s.inv_over else [k2[0] + "." + k2[1] for k2 in [] ]),) if False else s.inv_hist
                    # the state before the call was consistent for everything that was consistent then
                    s.inv_hist = s.inv_hist + tuple((b, sc) for (b, sc) in self.current_bases(st_pre_bases))
                if c.inv_scope is None and not (kind in ("signal", "close") or suspends):
                    # callee re-establishes everything it may have touched; what it did not touch keeps its base
                    changed = self.changed_keys(pre, s)
                    for cn2 in self.classes_with_invariants():
                        for (iname2, text2, _p2) in self.inv_text(cn2):
                            s.inv_over[(cn2, iname2)] = post if (cn2, iname2) not in s.inv_over or True else s.inv_over[(cn2, iname2)]
                    s.inv_base = post
                    s.inv_over = {}
                elif c.inv_scope is None or kind in ("signal", "close") or suspends:
                    # interference happened inside the callee: at its last yield point everything held; the callee's
                    # own segment after that only touched its frame (assumption listed in evidence)
                    s.inv_base = post
                    s.inv_over = {}
                    if c.inv_scope is not None:
                        self.assumptions_used.add("callee %s (scope %s) leaves invariants outside its scope intact in its first and last segment" % (c.fqn, c.inv_scope))
                else:
                    for cn2 in self.classes_with_invariants():
                        for (iname2, text2, _p2) in self.inv_text(cn2):
                            if self.in_scope(c.inv_scope, cn2, iname2):
                                s.inv_over[(cn2, iname2)] = post
                            elif (cn2, iname2) not in s.inv_over:
                                s.inv_over[(cn2, iname2)] = s.inv_base
            # the callee left its arguments in a consistent state: make their invariants available to the caller
            if not c.pure and not c.no_invariants and s.inv_base is not None:
                for av in fr.locals.values():
                    if isinstance(av, Val) and av.ty[0] == "ref" and av.ty[1] is not None:
                        self.touch(s, av, guard=True)
            # --- outcome
            sfr = fr.copy()
            saved_old = s.old
            s.old = pre
            s.callee_view = True
            try:
                if kind == "normal":
                    for w in whens:
                        if w is not None:
                            s.assume(z3.Not(w))
                    res = self.fresh_result(s, c)
                    if isinstance(res, Val) and res.ty[0] == "ref":
                        # whatever a callee hands back exists now
                        s.assume(birth(res.t) <= s.clock)
                    sfr.locals["result"] = res
                    for ens in c.ensures + c.on_exit:
                        s.assume(self.eval_clause(ens, s, frame=sfr))
                    if not self.feasible(s):
                        continue
                    vacuous[0] = False
                    s.old = saved_old
                    outs.extend(k(res, s))
                elif kind == "raise":
                    w = whens[list(c.raises).index(en)]
                    if w is not None:
                        s.assume(w)
                    if not self.feasible(s):
                        continue
                    vacuous[0] = False
                    exc = self.alloc(s, en, "exc")
                    sfr.locals["exc"] = exc
                    for ens in _l(spec.get("ensures")) + c.on_exit:
                        s.assume(self.eval_clause(ens, s, frame=sfr))
                    s.old = saved_old
                    outs.append((Outcome("X", exc), s))
                else:
                    if kind == "signal":
                        e = fresh("sig", RefS)
                        s.assume(e != NULL)
                        s.assume(subclass(cls_of(e), cls_const("Interrupt")))
                        s.assume(self.kernel_signal_class(e))
                        exc = Val(REF("Interrupt"), e)
                        sfr.locals["sig"] = exc
                        s.assume(self.eval_clause("sig.scheduled and not sig._revoked and sig.target is me and loop.activity is me and loop.time == sig.due",
                                                  s, frame=sfr))
                        clauses = c.on_signal
                    else:
                        e = fresh("gexit", RefS)
                        s.assume(e != NULL)
                        s.assume(cls_of(e) == cls_const("GeneratorExit"))
                        exc = Val(REF("GeneratorExit"), e)
                        sfr.locals["sig"] = exc
                        clauses = c.on_close if c.on_close is not None else c.on_signal
                        self.assume_close_protocol(s, z3.BoolVal(True))
                    for ens in list(clauses) + c.on_exit:
                        s.assume(self.eval_clause(ens, s, frame=sfr))
                    if not self.feasible(s):
                        continue
                    vacuous[0] = False
                    s.old = saved_old
                    outs.append((Outcome("X", exc), s))
            finally:
                s.callee_view = False
        if vacuous[0] and self.feasible(st_guard):
            # the caller's state is reachable but no outcome of the callee's contract is consistent with it:
            # either the contract is wrong or a precondition failed -- never drop the path silently
            self.emit(st_guard, "vacuity", "call[%s].some_outcome_possible" % info.qualname,
                      "contract of %s admits an outcome in this state" % info.qualname, z3.BoolVal(False))
        return outs

    def changed_keys(self, pre, st):
        return set()

    def bases_of(self, st):
        """(Snap, scope) pairs at which invariants are known to hold for the current state"""
        out = []
        if st.inv_base is not None:
            over = set(st.inv_over)
            if not over:
                out.append((st.inv_base, None))
            else:
                scope = []
                for cn in self.classes_with_invariants():
                    for (iname, _t, _p) in self.inv_text(cn):
                        if (cn, iname) not in over or st.inv_over[(cn, iname)] is st.inv_base:
                            scope.append(cn + "." + iname)
                out.append((st.inv_base, scope))
                groups = {}
                for (cn, iname), b in st.inv_over.items():
                    if b is not None and b is not st.inv_base:
                        groups.setdefault(id(b), (b, []))[1].append(cn + "." + iname)
                for b, sc in groups.values():
                    out.append((b, sc))
        return out

    def current_bases(self, bases):
        return bases

    def may_allocate(self, c, info):
        """callees declared `allocates=False` create no heap object on their normal paths (checked when they are
        verified: the allocation clock at exit is the entry clock); everything else may"""
        return c.allocates is not False

    def at_suspension_for_call(self, st, info):
        """calling something that may suspend is a yield point for the caller as well"""
        c = self.cur_contract
        if c is not None:
            for i, cl in enumerate(c.at_suspension):
                goal = self.eval_clause(cl, st)
                self.emit(st, "at_suspension", "at_suspension[%d]@call %s" % (i, info.qualname), cl, goal)

    def fresh_result(self, st, c):
        return self.fresh_of_type(st, c.returns)

    def fresh_of_type(self, st, ty):
        if ty is None:
            return NONE
        if ty[0] == "pytup":
            # a python tuple whose components need not be scalars (e.g. (key, list))
            return PyTup([self.fresh_of_type(st, t) for t in ty[1]])
        if ty[0] == "list":
            lv = LVal(ty[1], fresh("res_a", z3.ArraySort(z3.IntSort(), sort_of(ty[1]))), fresh("res_n", z3.IntSort()))
            st.assume(lv.n >= 0)
            return lv
        v = fresh_val("res", ty)
        if ty[0] in ("tup", "opt"):
            for rt, cn in self.typed_refs(v.t, ty):
                st.assume(z3.Or(rt == NULL, subclass(cls_of(rt), cls_const(cn))))
        if ty[0] == "ref" and len(ty) == 2:
            st.assume(v.t != NULL)
        if ty[0] == "ref" and ty[1] is not None:
            st.assume(z3.Or(v.t == NULL, subclass(cls_of(v.t), cls_const(ty[1]))))
        return v

    # ================================================================== verification of one function
    def verify_function(self, fqn):
        c = self.reg.contracts[fqn]
        info = self.repo.func(fqn)
        if info is None:
            raise SpecError("function under contract does not exist: " + fqn)
        reset_fresh()
        self.cur_func = info
        self.cur_contract = c
        self.witnesses = {}
        self.used_contracts = set()
        self.no_inv_assume = c.no_invariants
        self.no_inv_check = c.no_invariants
        self.cur_scope = c.inv_scope
        self.me_const = z3.Const("me", RefS)
        hs = HeapSpace(self.is_final)
        hs.born_before = self.born_before
        st = State(hs)
        fr = Frame(info, info.module, self.defining_class(info))
        st.frames.append(fr)
        st.assume(self.me_const != NULL)
        # ---- parameters
        a = info.node.args
        pnames = [p.arg for p in a.posonlyargs + a.args] + ([a.vararg.arg] if a.vararg else []) + \
                 [p.arg for p in a.kwonlyargs] + ([a.kwarg.arg] if a.kwarg else [])
        closure_vars = [n for n in c.params if n not in pnames]
        self.entry_params = {}
        for n in pnames + closure_vars:
            ty = c.params.get(n)
            if ty is None:
                raise SpecError("contract %s: no type for parameter %s" % (fqn, n))
            v = self.fresh_param(st, n, ty)
            self.entry_params[n] = v
        fr.locals = dict((n, self.entry_params[n]) for n in pnames)
        self.init_self = None
        if info.node.name == "__init__" and pnames and isinstance(self.entry_params[pnames[0]], Val):
            self.init_self = self.entry_params[pnames[0]]
            st.constructing = st.constructing | {self.init_self.t.get_id()}
            # the object under construction is fresh: younger than everything the heap refers to
            st.clock = z3.IntVal(1)
            st.assume(birth(self.init_self.t) == 1)
            # the allocation site has just set the ghost defaults
            for n in self.mro_names(self.init_self.ty[1]):
                m = self.reg.models.get(n)
                if m is None:
                    continue
                for f, dv in m.ghost_defaults.items():
                    key, ty, _g = self.field_decl(n, f)
                    cur = self.read_field(st, self.init_self.t, key, ty)
                    st.assume(cur.t == coerce(PyConst(dv), ty).t)
        if closure_vars:
            fr.closure = dict((n, self.entry_params[n]) for n in closure_vars)
        st.old = st.snap()
        st.inv_base = st.old
        st.last_susp = st.old
        for t in c.assume_entry:
            st.assume(self.eval_clause(t, st))
            self.assumptions_used.add("%s: entry assumption %s" % (fqn, t))
        for r in c.requires + c.requires_direct:
            st.assume(self.eval_clause(r, st))
        for spec in c.assume_all:
            cn2, _, iname2 = spec.partition(".")
            for (iname, text, _p) in self.inv_text(cn2):
                if iname == iname2:
                    x = z3.Const("all!" + cn2, RefS)
                    body = self.inv_formula(st, cn2, text, Val(REF(cn2), x), snap=st.old)
                    st.assume(z3.ForAll([x], z3.Implies(z3.And(x != NULL, subclass(cls_of(x), cls_const(cn2)), birth(x) <= 0), body)))
        n_obl_before = len(self.obligations)
        # vacuity guard: the precondition must be satisfiable
        if not self.feasible(st):
            self.emit(st, "vacuity", "requires_satisfiable", "requires", z3.BoolVal(False))
            return
        states = [st]
        for g in c.ghost_entry:
            states = [s2 for s in states for s2 in self.run_ghost(g, s)]
        outs = []
        for s in states:
            s.old = s.snap()
            s.inv_base = s.old
            s.last_susp = s.old
            if info.is_asyncgen:
                s.tick_time = self.loop_field(s, "time")
                s.step_time = s.tick_time
            self.assume_invariants_eagerly(s)
            if not c.no_invariants:
                self.assume_kernel_facts(s)
            outs.extend(self.exec_block(info.node.body, s))
        self.path_count += len(outs)
        for o, s in outs:
            self.check_exit(c, info, o, s)
        # vacuity guard: a contract that promises something about normal completion (or about the items of an async
        # generator) is not allowed to be "proved" because no symbolic path gets that far
        if c.ensures and not c.vacuous_ok and not any(o.kind in ("N", "R") for o, _s in outs):
            self.emit(states[0], "vacuity", "normal_exit_reachable",
                      "some path of the function reaches its normal exit (the contract has postconditions)", z3.BoolVal(False))
        if info.is_asyncgen and c.step_ensures and not c.vacuous_ok and not any(ob.kind == "step_post" for ob in self.obligations[n_obl_before:]):
            self.emit(states[0], "vacuity", "yield_reachable",
                      "some path of the async generator reaches a yield (the contract has step postconditions)", z3.BoolVal(False))
        return len(self.obligations) - n_obl_before

    def fresh_param(self, st, n, ty):
        if ty == "singleton:time":
            return Singleton("time")
        if isinstance(ty, str) and ty.startswith("singleton:"):
            return Singleton(ty.split(":")[1])
        if isinstance(ty, str) and ty.startswith("class:"):
            cn = ty.split(":")[1]
            return ClsVal(cn, self.class_info(cn))
        if ty[0] == "list":
            lv = LVal(ty[1], z3.Const("p_%s_a" % n, z3.ArraySort(z3.IntSort(), sort_of(ty[1]))), z3.Const("p_%s_n" % n, z3.IntSort()),
                      "tuple")
            st.assume(lv.n >= 0)
            self.assume_elem_types(st, lv)
            return lv
        v = Val(ty, z3.Const("p_" + n, sort_of(ty)))
        is_init_self = (self.cur_func.node.name == "__init__" and n == (self.cur_func.node.args.args[0].arg if self.cur_func.node.args.args else None))
        for rt in self.ref_components(v.t, v.t.sort()):
            if not is_init_self:
                st.assume(birth(rt) <= 0)
        if ty[0] == "ref":
            if len(ty) == 2:
                st.assume(v.t != NULL)
            if ty[1] is not None:
                cond = subclass(cls_of(v.t), cls_const(ty[1]))
                st.assume(cond if len(ty) == 2 else z3.Or(v.t == NULL, cond))
        return v

    def assume_elem_types(self, st, lv):
        if lv.ety[0] == "ref" and lv.ety[1] is not None:
            i = z3.Int("i!et")
            e = z3.Select(lv.arr, i)
            st.assume(z3.ForAll([i], z3.Implies(z3.And(0 <= i, i < lv.n),
                                                z3.And(e != NULL, subclass(cls_of(e), cls_const(lv.ety[1]))))))

    def run_ghost(self, text, st, frame=None):
        stmts = dsl.parse_stmts(text)
        fr = frame or self.spec_frame(st)
        fr.spec = True
        st.frames.append(fr)
        self.ghost_mode = True
        try:
            outs = self.exec_block(stmts, st)
        finally:
            self.ghost_mode = False
        res = []
        for o, s in outs:
            if o.kind != "N":
                raise SpecError("ghost statement %r raises" % text)
            s.frames.pop()
            res.append(s)
        return res

    def exc_kind(self, st, exc):
        """classify an exception leaving the function: 'signal' | 'close' | class-name candidates"""
        t = cls_of(exc.t)
        return t

    def check_exit(self, c, info, o, st):
        """obligations at one exit path of the function under verification"""
        if c.ghost_any_exit:
            states = [st]
            for g in c.ghost_any_exit:
                states = [s2 for s in states for s2 in self.run_ghost(g, s)]
            for s in states:
                self.check_exit2(c, info, o, s)
            return
        self.check_exit2(c, info, o, st)

    def check_exit2(self, c, info, o, st):
        fr_extra = {}
        if o.kind in ("N", "R"):
            res = o.val if o.kind == "R" else NONE
            self.check_normal_exit(c, info, res, st)
            return
        if o.kind != "X":
            raise Unsupported("function exits with outcome %s" % o.kind)
        exc = o.val
        # which declared route?  (foreign signal / close / declared exception / unexpected)
        branches = []
        t = cls_of(exc.t)
        is_sig = subclass(t, cls_const("Interrupt"))
        is_close = t == cls_const("GeneratorExit")
        declared = []
        for en in c.raises:
            declared.append((en, subclass(t, cls_const(en))))

        def route_signal(s):
            s.note("exit:signal")
            self.check_signal_exit(c, info, exc, s, closing=False)
            return []

        def route_close(s):
            s.note("exit:close")
            self.check_signal_exit(c, info, exc, s, closing=True)
            return []

        def route_declared(i, s):
            if i == len(declared):
                return route_unexpected(s)
            en, cond = declared[i]
            return self.split(s, cond, lambda s2: self.check_raise_exit(c, info, en, exc, s2) or [],
                              lambda s2: route_declared(i + 1, s2))

        def route_unexpected(s):
            for en in c.unexpected_ok:
                if self.entails(s, subclass(t, cls_const(en))):
                    s.note("exit:tolerated " + en)
                    self.check_common_exit(c, info, s, "raise " + en)
                    return []
            s.note("exit:unexpected")
            self.emit(s, "unexpected_exception", "no_unexpected_exception", "raises only declared exceptions", z3.BoolVal(False),
                      info={"exception": str(exc.t)})
            return []
        if c.suspends is not None:
            self.split(st, is_sig, route_signal,
                       lambda s: self.split(s, is_close, route_close, lambda s2: route_declared(0, s2)))
        else:
            route_declared(0, st)

    def exit_frame(self, st, extra=None):
        return self.spec_frame(st, extra)

    def check_guarantee(self, c, st, tag):
        if not c.guarantee:
            return
        saved = st.old
        st.old = st.last_susp or st.old
        try:
            for i, cl in enumerate(c.guarantee):
                self.emit(st, "guarantee", "guarantee[%d]@%s" % (i, tag), cl, self.eval_clause(cl, st))
        finally:
            st.old = saved

    def check_common_exit(self, c, info, st, tag):
        if self.init_self is not None and not tag.startswith("raise"):
            # (a constructor that raises produces no object: the class invariants are not demanded of the abandoned `self`)
            st.constructing = st.constructing - {self.init_self.t.get_id()}
        self.check_guarantee(c, st, "exit(%s)" % tag)
        for i, cl in enumerate(c.on_exit):
            self.emit(st, "on_exit", "on_exit[%d](%s)" % (i, tag), cl, self.eval_clause(cl, st))
        if not c.no_invariants:
            self.assert_invariants(st, where="exit(%s)" % tag)
        if c.check_frame and not c.havoc_all and (c.suspends is None or c.suspends[1] == 0):
            self.check_frame(c, info, st, tag)

    def check_normal_exit(self, c, info, res, st):
        st.note("exit:normal")
        states = [st]
        for g in c.ghost_exit:
            states = [s2 for s in states for s2 in self.run_ghost(g, s, frame=self.spec_frame(s, {"result": res}))]
        for s in states:
            self.check_normal_exit2(c, info, res, s)

    def check_normal_exit2(self, c, info, res, st):
        if c.allocates is False:
            self.emit(st, "allocates", "allocates_nothing", "no heap object is created on a normal path",
                      z3.BoolVal(st.clock.eq(z3.IntVal(0)) or st.clock.eq(z3.IntVal(1)) and self.init_self is not None))
        extra = {"result": self.result_for_spec(st, res, c)}
        for en, spec in c.raises.items():
            w = spec.get("when")
            if w:
                pre_when = self.eval_clause("old(%s)" % w, st)
                self.emit(st, "raises_iff", "must_raise[%s]" % en, w, z3.Not(pre_when))
        for i, cl in enumerate(c.ensures):
            goal = self.eval_clause(cl, st, extra=extra)
            self.emit(st, "post", "ensures[%d]" % i, cl, goal, props=c.clause_props.get(cl))
            if c.chain_ensures:
                # assert-then-assume: a clause proved on this path may serve as a lemma for the clauses after it
                st.assume(goal)
        if c.suspends is not None and not info.is_asyncgen:
            lo, hi = c.suspends
            base = getattr(st, "susp_base", z3.IntVal(0))
            self.emit(st, "suspends", "suspends.min", "suspensions >= %d" % lo, st.susp >= lo)
            if hi is not None:
                self.emit(st, "suspends", "suspends.max", "suspensions <= %d" % hi, st.susp <= hi)
        self.check_common_exit(c, info, st, "normal")

    def result_for_spec(self, st, res, c):
        if c.returns is not None and not isinstance(res, (LVal, Cell, FldList)):
            try:
                if c.returns[0] == "list":
                    return self.as_lval(st, res, c.returns[1]) if not isinstance(res, EmptyList) else self.empty_list(c.returns[1])
                if isinstance(res, PyTup) and c.returns[0] == "tup":
                    return tup_mk(c.returns, res.items)
                if isinstance(res, (CoroVal,)):
                    return self.coro_ref(st, res)
                if isinstance(res, (ClsVal, FuncVal, Singleton)):
                    return res
                return coerce(res, c.returns)
            except Unsupported:
                return res
        return res

    def check_raise_exit(self, c, info, en, exc, st):
        st.note("exit:raise " + en)
        spec = c.raises[en]
        w = spec.get("when")
        if w:
            self.emit(st, "raises_when", "raises[%s].when" % en, w, self.eval_clause("old(%s)" % w, st))
        for i, cl in enumerate(_l(spec.get("ensures"))):
            self.emit(st, "raises_post", "raises[%s].ensures[%d]" % (en, i), cl, self.eval_clause(cl, st, extra={"exc": exc}))
        self.check_common_exit(c, info, st, "raise " + en)

    def check_signal_exit(self, c, info, exc, st, closing):
        clauses = (c.on_close if (closing and c.on_close is not None) else c.on_signal)
        tag = "close" if closing else "signal"
        for i, cl in enumerate(clauses):
            self.emit(st, "on_signal", "on_%s[%d]" % (tag, i), cl, self.eval_clause(cl, st, extra={"sig": exc}))
        self.check_common_exit(c, info, st, tag)

    def check_frame(self, c, info, st, tag):
        """every heap array that changed is covered by `modifies` (and only at the declared object)"""
        allowed = {}
        fr = self.spec_frame(st)
        prev = st.heap_override
        for key, obj in self.parse_modifies_old(c, st, fr):
            for hk, _sort in self.heap_keys_for(key):
                allowed.setdefault(hk, []).append(obj)
        for hk, arr in st.heap.items():
            old = st.old.heap.get(hk)
            if old is None:
                old = st.hs.initial(st.old.epoch, hk, arr.sort())
            if arr.eq(old):
                continue
            if hk in (self.CORO_STATE_KEY, self.ABSTRACT_TRUTH):
                continue
            if hk.endswith("#n") and (hk[:-2] + "#a") in st.heap:
                continue      # checked together with the content array
            objs = allowed.get(hk)
            x = z3.Const("x!fr", RefS)
            if objs is not None and None in objs:
                continue
            guards = [x != NULL, birth(x) <= 0] + ([x != o for o in objs] if objs else [])
            if hk.endswith("#a"):
                # a list field: equal as lists (length and the elements below the length)
                nk = hk[:-2] + "#n"
                narr = st.heap.get(nk)
                nold = st.old.heap.get(nk)
                if narr is None:
                    narr = st.hs.initial(st.epoch, nk, z3.ArraySort(RefS, z3.IntSort()))
                if nold is None:
                    nold = st.hs.initial(st.old.epoch, nk, z3.ArraySort(RefS, z3.IntSort()))
                i = z3.Const("i!fr", z3.IntSort())
                same = z3.And(z3.Select(narr, x) == z3.Select(nold, x),
                              z3.ForAll([i], z3.Implies(z3.And(0 <= i, i < z3.Select(nold, x)),
                                                       z3.Select(z3.Select(arr, x), i) == z3.Select(z3.Select(old, x), i))))
            else:
                same = z3.Select(arr, x) == z3.Select(old, x)
            goal = z3.ForAll([x], z3.Implies(z3.And(*guards), same))
            what = "modifies does not list " + hk if objs is None else "only declared objects change in " + hk
            self.emit(st, "frame", "frame[%s](%s)" % (hk, tag), what, goal)

    def parse_modifies_old(self, c, st, fr):
        s2 = st.copy()
        s2.heap_override = st.old
        return self.parse_modifies(c, s2, fr)


def _l(x):
    if x is None:
        return []
    if isinstance(x, str):
        return [x]
    return list(x)
