"""Load contracts, verify functions, solve obligations."""
import importlib
import json
import os
import sys
import time
import traceback
import z3

from . import dsl
from .core import Unsupported, SpecError
from .repo import RepoIndex
from .engine import Engine
from . import solve

CONTRACT_MODULES = None


def load_registry(mods=None):
    sys.path.insert(0, os.path.dirname(os.path.dirname(os.path.abspath(__file__))))
    if mods is None:
        from .runner import contract_modules
        mods = contract_modules()
    for m in mods:
        importlib.import_module("contracts." + m)
    return dsl.REG


def verify_one(fqn, repo=None, reg=None, facts=None, solve_it=True, tier="quick"):
    repo = repo or RepoIndex()
    reg = reg or load_registry()
    eng = Engine(repo, reg, facts)
    rec = {"function": fqn, "obligations": [], "status": "ok", "error": None}
    t0 = time.time()
    try:
        eng.verify_function(fqn)
    except (Unsupported, SpecError) as e:
        rec["status"] = "undecided"
        rec["error"] = "%s: %s" % (type(e).__name__, e)
        rec["trace"] = traceback.format_exc()
    rec["gen_s"] = time.time() - t0
    rec["paths"] = eng.path_count
    rec["infeasible"] = eng.infeasible
    rec["assumptions"] = sorted(eng.assumptions_used)
    rec["inlined"] = sorted(eng.inlined)
    rec["used_contracts"] = sorted(eng.used_contracts)
    info = repo.func(fqn)
    rec["ast_hash"] = info.ast_hash() if info else None
    # everything whose source text the obligations of this function depend on: itself + inlined callees
    import hashlib
    deps = {fqn: rec["ast_hash"]}
    for q in sorted(eng.inlined):
        fi = repo.func(q.split(" ")[0])
        if fi is not None:
            deps[fi.fqn] = fi.ast_hash()
    for q in sorted(eng.used_contracts):
        fi = repo.func(q)
        deps["contract:" + q] = "present" if (fi is not None or q.startswith("abstract:")) else "missing"
    rec["deps"] = deps
    rec["deps_hash"] = hashlib.sha256(repr(sorted(deps.items())).encode()).hexdigest()[:16]
    if solve_it:
        rec["obligations"] = solve_all(eng, tier)
    rec["engine"] = eng
    return rec


def known_open_keys():
    """obligations listed as open known findings: decided once, no retries (they are expected not to discharge)"""
    try:
        with open(os.path.join(os.path.dirname(os.path.dirname(os.path.abspath(__file__))), "known_findings.json")) as fh:
            doc = json.load(fh)
        return set(k["obligation"] for k in doc.get("findings", []) if k.get("status") == "open")
    except (OSError, ValueError, KeyError):
        return set()


def solve_slice(eng, ax, obs, tier):
    out = []
    known = known_open_keys()
    for ob in obs:
        if z3.is_true(ob.goal):
            v, m, dt, be = "discharged", None, 0.0, "trivial"
        else:
            v, m, dt, be = solve.check(ax, ob.pc, ob.goal)
            if v == "unknown" and not os.environ.get("PYVC_NO_RETRY") and ob.name.rsplit("/", 1)[0] not in known:
                # one retry with a three times larger budget (verdicts must not flip under machine load)
                v, m, dt2, be = solve.check(ax, ob.pc, ob.goal, timeout_ms=3 * solve.Z3_TIMEOUT_MS)
                dt += dt2
        o = {"name": ob.name, "kind": ob.kind, "clause": ob.clause, "verdict": v, "time": round(dt, 4),
             "backend": be, "path": ob.trace, "props": ob.props}
        if tier == "thorough" and v == "discharged" and be != "trivial":
            xv, xbe = solve.cross_check(ax, ob.pc, ob.goal)
            o["cross"] = {"verdict": xv, "backend": xbe}
        if v == "refuted":
            o["model"] = solve.model_summary(m, getattr(ob, "locals_view", {}))
            o["goal"] = str(ob.goal)[:2000]
        if v == "unknown":
            o["reason"] = str(m)
        out.append(o)
    return out


def solve_all(eng, tier):
    """solve the obligations of one function in forked children (same z3 context image, no serialisation).
    Each child appends one JSON line per obligation; a child that makes no progress for longer than the hard
    limit is killed (z3's timeout is soft), the obligation it was working on becomes `unknown`, and a fresh child
    continues with the rest."""
    import signal
    ax = eng.class_axioms()
    obs = eng.obligations
    n = len(obs)
    if n == 0:
        return []
    nproc = int(os.environ.get("PYVC_SOLVE_PROCS", "0")) or (8 if n > 300 else 4 if n > 80 else 1)
    hard = float(os.environ.get("PYVC_HARD_LIMIT_S", str(4 * solve.WALL_FACTOR * solve.Z3_TIMEOUT_MS / 1000.0 + 60)))
    tmpdir = os.path.join(os.path.dirname(os.path.dirname(os.path.abspath(__file__))), ".cache", "tmp")
    os.makedirs(tmpdir, exist_ok=True)
    out = [None] * n
    queues = [list(range(i, n, nproc)) for i in range(nproc)]

    def spawn(si, idxs):
        path = os.path.join(tmpdir, "slice_%d_%d_%d.jsonl" % (os.getpid(), si, idxs[0]))
        if os.path.exists(path):
            os.unlink(path)
        pid = os.fork()
        if pid == 0:
            code = 0
            try:
                with open(path, "a") as fh:
                    for i in idxs:
                        res = solve_slice(eng, ax, [obs[i]], tier)[0]
                        fh.write(json.dumps([i, res]) + "\n")
                        fh.flush()
            except BaseException:
                traceback.print_exc()
                code = 3
            os._exit(code)
        return {"pid": pid, "path": path, "idxs": idxs, "done": 0, "last": time.time(), "si": si}

    kids = [spawn(si, q) for si, q in enumerate(queues) if q]
    while kids:
        time.sleep(0.2)
        for kid in list(kids):
            # collect progress
            try:
                with open(kid["path"]) as fh:
                    lines = fh.read().splitlines()
            except OSError:
                lines = []
            if len(lines) > kid["done"]:
                for ln in lines[kid["done"]:]:
                    try:
                        i, res = json.loads(ln)
                    except ValueError:
                        break
                    out[i] = res
                    kid["done"] += 1
                    kid["last"] = time.time()
            pid, status = os.waitpid(kid["pid"], os.WNOHANG)
            finished = pid != 0
            stuck = (not finished) and (time.time() - kid["last"] > hard)
            if stuck:
                try:
                    os.kill(kid["pid"], signal.SIGKILL)
                    os.waitpid(kid["pid"], 0)
                except OSError:
                    pass
            if finished or stuck:
                kids.remove(kid)
                try:
                    os.unlink(kid["path"])
                except OSError:
                    pass
                rest = kid["idxs"][kid["done"]:]
                if rest and (stuck or status != 0):
                    i0 = rest[0]
                    ob = obs[i0]
                    out[i0] = {"name": ob.name, "kind": ob.kind, "clause": ob.clause, "verdict": "unknown", "time": round(hard, 1),
                               "backend": "z3 (killed: hard limit)" if stuck else "z3 (child died)", "path": ob.trace, "props": ob.props,
                               "reason": "solver exceeded the hard wall-clock limit" if stuck else "solver process died"}
                    if rest[1:]:
                        kids.append(spawn(kid["si"], rest[1:]))
    for i in range(n):
        if out[i] is None:
            ob = obs[i]
            out[i] = {"name": ob.name, "kind": ob.kind, "clause": ob.clause, "verdict": "unknown", "time": 0.0, "backend": "none",
                      "path": ob.trace, "props": ob.props, "reason": "no result"}
    return out


if __name__ == "__main__":
    reg = load_registry(sys.argv[2].split(",") if len(sys.argv) > 2 else None)
    repo = RepoIndex()
    targets = [sys.argv[1]] if sys.argv[1] != "all" else list(reg.contracts)
    for fqn in targets:
        r = verify_one(fqn, repo, reg)
        print("==", fqn, r["status"], r["error"] or "", "paths", r["paths"], "gen %.2fs" % r["gen_s"])
        if r["status"] != "ok" and os.environ.get("PYVC_TRACE"):
            print(r["trace"])
        nd = sum(1 for o in r["obligations"] if o["verdict"] == "discharged")
        print("   discharged %d / %d" % (nd, len(r["obligations"])))
        for o in r["obligations"]:
            if o["verdict"] == "discharged" and not os.environ.get("PYVC_VERBOSE"):
                continue
            print("   %-10s %-6.3f %s  [%s]" % (o["verdict"], o["time"], o["name"], o["clause"][:70]))
            if o["verdict"] != "discharged":
                print("        path:", o["path"])
                print("        model:", o.get("model"), o.get("reason", ""))
