"""Load contracts, verify functions, solve obligations."""
import importlib
import json
import os
import sys
import time
import traceback
import z3

from . import dsl
from .core import Unsupported, SpecError
from .repo import RepoIndex
from .engine import Engine
from . import solve

CONTRACT_MODULES = None


def load_registry(mods=None):
    sys.path.insert(0, os.path.dirname(os.path.dirname(os.path.abspath(__file__))))
    if mods is None:
        from .runner import contract_modules
        mods = contract_modules()
    for m in mods:
        importlib.import_module("contracts." + m)
    return dsl.REG


def verify_one(fqn, repo=None, reg=None, facts=None, solve_it=True, tier="quick"):
    repo = repo or RepoIndex()
    reg = reg or load_registry()
    eng = Engine(repo, reg, facts)
    rec = {"function": fqn, "obligations": [], "status": "ok", "error": None}
    t0 = time.time()
    try:
        eng.verify_function(fqn)
    except (Unsupported, SpecError) as e:
        rec["status"] = "undecided"
        rec["error"] = "%s: %s" % (type(e).__name__, e)
        rec["trace"] = traceback.format_exc()
    rec["gen_s"] = time.time() - t0
    rec["paths"] = eng.path_count
    rec["infeasible"] = eng.infeasible
    rec["assumptions"] = sorted(eng.assumptions_used)
    rec["inlined"] = sorted(eng.inlined)
    rec["used_contracts"] = sorted(eng.used_contracts)
    info = repo.func(fqn)
    rec["ast_hash"] = info.ast_hash() if info else None
    # everything whose source text the obligations of this function depend on: itself + inlined callees
    import hashlib
    deps = {fqn: rec["ast_hash"]}
    for q in sorted(eng.inlined):
        fi = repo.func(q.split(" ")[0])
        if fi is not None:
            deps[fi.fqn] = fi.ast_hash()
    for q in sorted(eng.used_contracts):
        fi = repo.func(q)
        deps["contract:" + q] = "present" if (fi is not None or q.startswith("abstract:")) else "missing"
    rec["deps"] = deps
    rec["deps_hash"] = hashlib.sha256(repr(sorted(deps.items())).encode()).hexdigest()[:16]
    if solve_it:
        rec["obligations"] = solve_all(eng, tier)
    rec["engine"] = eng
    return rec


def solve_slice(eng, ax, obs, tier):
    out = []
    for ob in obs:
        if z3.is_true(ob.goal):
            v, m, dt, be = "discharged", None, 0.0, "trivial"
        else:
            v, m, dt, be = solve.check(ax, ob.pc, ob.goal)
            if v == "unknown" and not os.environ.get("PYVC_NO_RETRY"):
                # one retry with a three times larger budget (verdicts must not flip under machine load)
                v, m, dt2, be = solve.check(ax, ob.pc, ob.goal, timeout_ms=3 * solve.Z3_TIMEOUT_MS)
                dt += dt2
        o = {"name": ob.name, "kind": ob.kind, "clause": ob.clause, "verdict": v, "time": round(dt, 4),
             "backend": be, "path": ob.trace, "props": ob.props}
        if tier == "thorough" and v == "discharged" and be != "trivial":
            xv, xbe = solve.cross_check(ax, ob.pc, ob.goal)
            o["cross"] = {"verdict": xv, "backend": xbe}
        if v == "refuted":
            o["model"] = solve.model_summary(m, getattr(ob, "locals_view", {}))
            o["goal"] = str(ob.goal)[:2000]
        if v == "unknown":
            o["reason"] = str(m)
        out.append(o)
    return out


def solve_all(eng, tier):
    """solve the obligations of one function; large sets are split over forked children (same z3 context image)"""
    ax = eng.class_axioms()
    obs = eng.obligations
    n = len(obs)
    nproc = int(os.environ.get("PYVC_SOLVE_PROCS", "0")) or (8 if n > 300 else 4 if n > 80 else 1)
    if nproc <= 1:
        return solve_slice(eng, ax, obs, tier)
    import tempfile
    tmpdir = os.path.join(os.path.dirname(os.path.dirname(os.path.abspath(__file__))), ".cache", "tmp")
    os.makedirs(tmpdir, exist_ok=True)
    slices = [list(range(i, n, nproc)) for i in range(nproc)]
    kids = []
    for si, idxs in enumerate(slices):
        path = os.path.join(tmpdir, "slice_%d_%d.json" % (os.getpid(), si))
        pid = os.fork()
        if pid == 0:
            code = 0
            try:
                res = solve_slice(eng, ax, [obs[i] for i in idxs], tier)
                with open(path, "w") as fh:
                    json.dump(res, fh)
            except BaseException:
                traceback.print_exc()
                code = 3
            os._exit(code)
        kids.append((pid, path, idxs))
    out = [None] * n
    failed = False
    for pid, path, idxs in kids:
        _, status = os.waitpid(pid, 0)
        if status != 0 or not os.path.exists(path):
            failed = True
            continue
        with open(path) as fh:
            res = json.load(fh)
        os.unlink(path)
        for i, o in zip(idxs, res):
            out[i] = o
    if failed:
        # a child died: fall back to solving the missing ones here
        missing = [i for i in range(n) if out[i] is None]
        for i, o in zip(missing, solve_slice(eng, ax, [obs[i] for i in missing], tier)):
            out[i] = o
    return out


if __name__ == "__main__":
    reg = load_registry(sys.argv[2].split(",") if len(sys.argv) > 2 else None)
    repo = RepoIndex()
    targets = [sys.argv[1]] if sys.argv[1] != "all" else list(reg.contracts)
    for fqn in targets:
        r = verify_one(fqn, repo, reg)
        print("==", fqn, r["status"], r["error"] or "", "paths", r["paths"], "gen %.2fs" % r["gen_s"])
        if r["status"] != "ok" and os.environ.get("PYVC_TRACE"):
            print(r["trace"])
        nd = sum(1 for o in r["obligations"] if o["verdict"] == "discharged")
        print("   discharged %d / %d" % (nd, len(r["obligations"])))
        for o in r["obligations"]:
            if o["verdict"] == "discharged" and not os.environ.get("PYVC_VERBOSE"):
                continue
            print("   %-10s %-6.3f %s  [%s]" % (o["verdict"], o["time"], o["name"], o["clause"][:70]))
            if o["verdict"] != "discharged":
                print("        path:", o["path"])
                print("        model:", o.get("model"), o.get("reason", ""))
