"""Property checks: closure -> per-function verification (process pool, cached) -> verdicts -> evidence."""
import glob
import hashlib
import importlib
import json
import multiprocessing as mp
import os
import subprocess
import sys
import time
import traceback

VERIF = os.path.dirname(os.path.dirname(os.path.abspath(__file__)))
CACHE_DIR = os.path.join(VERIF, ".cache")
ALL_MODULES = None


def contract_modules():
    mods = []
    for p in sorted(glob.glob(os.path.join(VERIF, "contracts", "*.py"))):
        n = os.path.basename(p)[:-3]
        if n != "__init__":
            mods.append(n)
    return mods


def tree_hash():
    """hash of everything a verdict depends on besides function bodies: contracts, engine, interpreter facts,
    solver budget, and the repository's structure (everything outside function bodies)"""
    h = hashlib.sha256()
    files = sorted(glob.glob(os.path.join(VERIF, "contracts", "*.py")))
    # (reporting-only modules do not influence a verification record)
    files += sorted(f for f in glob.glob(os.path.join(VERIF, "pyvc", "*.py"))
                    if os.path.basename(f) not in ("check.py", "replay.py", "debug.py", "setup_check.py", "extra.py"))
    files += [os.path.join(VERIF, "facts.json")]
    for f in files:
        h.update(f.encode())
        try:
            with open(f, "rb") as fh:
                h.update(fh.read())
        except OSError:
            h.update(b"<missing>")
    h.update(os.environ.get("PYVC_Z3_TIMEOUT_MS", "").encode())
    from .repo import RepoIndex
    h.update(RepoIndex().structure_hash().encode())
    return h.hexdigest()


def current_deps(repo, deps):
    """re-evaluate a stored dependency manifest (driver.verify_one) against the current tree"""
    cur = {}
    for k, v in deps.items():
        if k.startswith("contract:"):
            q = k[len("contract:"):]
            fi = repo.func(q)
            cur[k] = "present" if (fi is not None or q.startswith("abstract:")) else "missing"
        else:
            fi = repo.func(k)
            cur[k] = fi.ast_hash() if fi is not None else None
    return cur


def load_facts():
    try:
        with open(os.path.join(VERIF, "facts.json")) as fh:
            return json.load(fh)
    except OSError:
        return {}


_worker_state = {}


def _init_worker():
    sys.path.insert(0, VERIF)
    from . import dsl
    from .repo import RepoIndex
    for m in contract_modules():
        importlib.import_module("contracts." + m)
    _worker_state["reg"] = dsl.REG
    _worker_state["repo"] = RepoIndex()
    _worker_state["facts"] = load_facts()


def _verify_worker(args):
    fqn, thash, tier = args
    # run-time cache (never committed): a record is reused only if the engine, the contracts, the repository
    # structure and the body of every function the record was generated from (itself + inlined callees) are
    # unchanged; then generation is a deterministic function of identical inputs.
    if "reg" not in _worker_state:
        _init_worker()
    cpath = _cache_path(thash, fqn, tier)
    if os.path.exists(cpath) and not os.environ.get("PYVC_NOCACHE"):
        try:
            with open(cpath) as fh:
                rec = json.load(fh)
            if rec.get("deps") and current_deps(_worker_state["repo"], rec["deps"]) == rec["deps"]:
                rec["cached"] = True
                return rec
        except Exception:
            pass
    from .driver import verify_one
    t0 = time.time()
    try:
        rec = verify_one(fqn, _worker_state["repo"], _worker_state["reg"], _worker_state["facts"], solve_it=True, tier=tier)
        rec.pop("engine", None)
    except Exception as e:     # checker crash
        rec = {"function": fqn, "status": "crash", "error": "%s: %s" % (type(e).__name__, e),
               "trace": traceback.format_exc(), "obligations": []}
    rec["wall_s"] = round(time.time() - t0, 3)
    rec["cached"] = False
    try:
        os.makedirs(CACHE_DIR, exist_ok=True)
        tmp = cpath + ".%d.tmp" % os.getpid()
        with open(tmp, "w") as fh:
            json.dump(rec, fh)
        os.replace(tmp, cpath)
    except OSError:
        pass
    return rec


def _cache_path(thash, fqn, tier):
    return os.path.join(CACHE_DIR, hashlib.sha256((thash + fqn + tier).encode()).hexdigest()[:32] + ".json")


def _resolve_worker(args):
    """second look at the obligations a function left `unknown`: regenerate, re-solve only those, alone on the
    machine and with a six times larger budget (a verdict must not depend on the load of the first pass)"""
    fqn, names, thash, tier = args
    if "reg" not in _worker_state:
        _init_worker()
    from .driver import verify_one
    from . import solve
    out = {}
    try:
        rec = verify_one(fqn, _worker_state["repo"], _worker_state["reg"], _worker_state["facts"], solve_it=False, tier=tier)
        eng = rec["engine"]
        ax = eng.class_axioms()
        for ob in eng.obligations:
            if ob.name in names:
                v, m, dt, be = solve.check(ax, ob.pc, ob.goal, timeout_ms=6 * solve.Z3_TIMEOUT_MS)
                out[ob.name] = {"verdict": v, "time": round(dt, 3), "backend": be + " (second pass)"}
                if v == "refuted":
                    out[ob.name]["model"] = solve.model_summary(m, getattr(ob, "locals_view", {}))
                    out[ob.name]["goal"] = str(ob.goal)[:2000]
    except Exception:
        traceback.print_exc()
    return fqn, out


def second_pass(recs, thash, tier):
    todo = []
    from .driver import known_open_keys
    known = known_open_keys()
    for r in recs:
        if r.get("status") != "ok" or r.get("second_pass"):
            continue
        names = [o["name"] for o in r["obligations"] if o["verdict"] == "unknown" and "hard limit" not in o.get("backend", "")
                 and o["name"].rsplit("/", 1)[0] not in known]
        if names and len(names) <= 40:
            todo.append((r["function"], set(names), thash, tier))
    if not todo or os.environ.get("PYVC_NO_SECOND_PASS"):
        return recs
    ctx = mp.get_context("fork")
    with ctx.Pool(min(4, len(todo)), initializer=_init_worker, maxtasksperchild=1) as pool:
        results = dict(pool.map(_resolve_worker, todo, chunksize=1))
    for r in recs:
        upd = results.get(r["function"])
        if upd is None:
            continue
        for o in r["obligations"]:
            u = upd.get(o["name"])
            if u is not None:
                o["time"] = round(o.get("time", 0) + u["time"], 3)
                if u["verdict"] != "unknown":
                    o.update(u)
                    o.pop("reason", None)
        r["second_pass"] = True
        try:
            cpath = _cache_path(thash, r["function"], tier)
            tmp = cpath + ".%d.tmp" % os.getpid()
            with open(tmp, "w") as fh:
                json.dump(r, fh)
            os.replace(tmp, cpath)
        except OSError:
            pass
    return recs


def verify_functions(fqns, tier="quick", jobs=None):
    thash = tree_hash()
    jobs = jobs or min(16, max(1, len(fqns)))
    # scheduling only (no influence on any verdict): the functions with the most obligations on the baseline tree start first
    cost = _baseline_cost()
    order = sorted(range(len(fqns)), key=lambda i: (-cost.get(fqns[i], 0), i))
    args = [(fqns[i], thash, tier) for i in order]
    # Every function is verified in a process of its own, forked from this one (maxtasksperchild=1): the z3 context, the
    # fresh-name counters and every cache of the engine start from the same state whatever was verified before and on
    # whichever worker, so the obligations generated for a function -- and with the resource-unit budgets their verdicts --
    # are a function of the tree alone.  (A long-lived worker that had verified other functions before generated different
    # path sets for the same function: seen as 176 vs 204 obligations for Lock.__aenter__ on the same tree.)
    ctx = mp.get_context("fork")
    with ctx.Pool(max(1, min(jobs, len(args))), initializer=_init_worker, maxtasksperchild=1) as pool:
        done = pool.map(_verify_worker, args, chunksize=1)
    recs = [None] * len(fqns)
    for i, r in zip(order, done):
        recs[i] = r
    return second_pass(recs, thash, tier)


def _baseline_cost():
    try:
        with open(os.path.join(VERIF, "baseline", "obligations.json")) as fh:
            return {k: v.get("n", 0) for k, v in json.load(fh).get("functions", {}).items()}
    except (OSError, ValueError):
        return {}
