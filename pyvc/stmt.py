"""Statement execution: returns the list of (Outcome, State) of the statement/block itself."""
import ast
import z3
from .core import *   # noqa
from .base import Outcome, N_, DictLit, DictFld
from .expr import EmptyList, OptList, GenExp
from .repo import BUILTIN_EXC, FuncInfo
from .state import Frame

MAX_PATHS = 6000


class StmtMixin:
    def exec_block(self, stmts, st):
        states = [st]
        done = []
        for stmt in stmts:
            if isinstance(stmt, ast.Expr) and isinstance(stmt.value, ast.Constant) and isinstance(stmt.value.value, str):
                continue   # docstring
            nxt = []
            for s in states:
                for o, s2 in self.exec_stmt(stmt, s):
                    if o.kind == "N":
                        nxt.append(s2)
                    else:
                        done.append((o, s2))
            states = nxt
            if len(states) + len(done) > MAX_PATHS:
                raise Unsupported("path explosion (> %d paths)" % MAX_PATHS)
            if not states:
                break
        return done + [(N_, s) for s in states]

    def exec_stmt(self, stmt, st):
        m = getattr(self, "st_" + type(stmt).__name__, None)
        if m is None:
            raise Unsupported("statement %s" % type(stmt).__name__)
        return m(stmt, st)

    # ------------------------------------------------------------------ simple statements
    def st_Pass(self, stmt, st):
        return [(N_, st)]

    def st_Expr(self, stmt, st):
        return self.ev(stmt.value, st, lambda v, s: [(N_, s)])

    def st_Return(self, stmt, st):
        if stmt.value is None:
            return [(Outcome("R", NONE), st)]
        return self.ev(stmt.value, st, lambda v, s: [(Outcome("R", v), s)])

    def st_Break(self, stmt, st):
        return [(Outcome("B"), st)]

    def st_Continue(self, stmt, st):
        return [(Outcome("C"), st)]

    def st_Global(self, stmt, st):
        raise Unsupported("global statement")

    def st_FunctionDef(self, stmt, st):
        info = self.nested_info(st, stmt)
        env = dict(st.frame.closure or {})
        env.update(st.frame.locals)
        fv = FuncVal("closure", info=info, extra=env)
        # decorators: only functools.wraps(...) (identity) is accepted
        for d in stmt.decorator_list:
            if not ast.unparse(d).startswith("wraps("):
                raise Unsupported("decorator on nested function: " + ast.unparse(d))
        st.frame.locals[stmt.name] = fv
        return [(N_, st)]

    st_AsyncFunctionDef = st_FunctionDef

    def nested_info(self, st, node):
        f = st.frame.func
        if isinstance(f, FuncInfo) and node.name in f.nested:
            return f.nested[node.name]
        raise Unsupported("nested function %s not indexed" % node.name)

    def st_Assign(self, stmt, st):
        def done(v, s):
            if isinstance(v, Val) and v.ty[0] == "opt" and any(isinstance(t, (ast.Tuple, ast.List)) for t in stmt.targets):
                return self.split(s, opt_is_none(v), lambda s2: self.raise_exc(s2, "TypeError", "cannot unpack None"),
                                  lambda s2: assign_all(v, s2), label="none?")
            return assign_all(v, s)

        def assign_all(v, s):
            if isinstance(v, EmptyList) and any(isinstance(t, ast.Subscript) for t in stmt.targets):
                # d[k] = name = []   : the local name aliases the list stored in the dict
                handle = None
                for t in stmt.targets:
                    if isinstance(t, ast.Subscript):
                        res = []
                        self.ev(t.value, s, lambda base, s1: self.ev(t.slice, s1, lambda idx, s2: res.append((base, idx)) or []))
                        base, idx = res[0]
                        if not isinstance(base, DictFld) or base.vty[0] != "list":
                            raise Unsupported("empty list stored into %r" % (base,))
                        self.dict_set(s, base, idx, v)
                        from .containers import DictEntryList
                        handle = DictEntryList(base, coerce(idx, base.kty).t, base.vty[1])
                for t in stmt.targets:
                    if not isinstance(t, ast.Subscript):
                        self.assign_target(t, handle, s)
                return [(N_, s)]
            if isinstance(v, EmptyList) and all(isinstance(t, ast.Name) for t in stmt.targets):
                # a local list that will be filled by the code: elements default to object references
                v = self.new_cell(s, self.empty_list(ANY), v.kind)
            for t in stmt.targets:
                self.check_sequence_class(t, stmt.value, s)
                self.assign_target(t, v, s)
            if isinstance(stmt.value, ast.Name) and (isinstance(v, (Cell, LVal))) and len(stmt.targets) == 1 \
                    and isinstance(stmt.targets[0], ast.Attribute):
                # `obj.field = name` with a list: from here on the local name and the field denote the same list object
                t = stmt.targets[0]
                res = []
                self.ev(t.value, s, lambda base, s1: res.append(base) or [])
                base = res[0]
                if isinstance(base, Val) and base.ty[0] == "ref" and base.ty[1] is not None:
                    fd = self.field_decl(base.ty[1], t.attr)
                    if fd is not None and fd[1][0] == "list":
                        s.frame.locals[stmt.value.id] = FldList(base.t, fd[0], fd[1][1])
            return [(N_, s)]
        # typed empty containers: `self.x = []`
        return self.ev(stmt.value, st, done)

    def st_AnnAssign(self, stmt, st):
        if stmt.value is None:
            return [(N_, st)]

        def done(v, s):
            self.assign_target(stmt.target, v, s)
            return [(N_, s)]
        return self.ev(stmt.value, st, done)

    def st_AugAssign(self, stmt, st):
        load = ast.copy_location(self.to_load(stmt.target), stmt.target)

        def with_cur(cur, s):
            def with_rhs(rhs, s2):
                def done(v, s3):
                    self.assign_target(stmt.target, v, s3)
                    return [(N_, s3)]
                return self.binop(stmt.op, cur, rhs, s2, done, None)
            return self.ev(stmt.value, s, with_rhs)
        return self.ev(load, st, with_cur)

    def to_load(self, t):
        if isinstance(t, ast.Name):
            return ast.Name(id=t.id, ctx=ast.Load())
        if isinstance(t, ast.Attribute):
            return ast.Attribute(value=t.value, attr=t.attr, ctx=ast.Load())
        if isinstance(t, ast.Subscript):
            return ast.Subscript(value=t.value, slice=t.slice, ctx=ast.Load())
        raise Unsupported("augmented assignment target")

    def assign_target(self, t, v, st):
        if isinstance(t, ast.Name):
            st.frame.locals[t.id] = v
            return
        if isinstance(t, (ast.Tuple, ast.List)):
            items = self.unpack(v, len(t.elts), st)
            for tt, it in zip(t.elts, items):
                self.assign_target(tt, it, st)
            return
        if isinstance(t, ast.Attribute):
            res = []
            self.ev(t.value, st, lambda base, s: res.append((base, s)) or [])
            if len(res) != 1 or res[0][1] is not st:
                raise Unsupported("assignment target object expression forks")
            base = res[0][0]
            self.setattr_val(base, t.attr, v, st)
            return
        if isinstance(t, ast.Subscript):
            res = []
            self.ev(t.value, st, lambda base, s: self.ev(t.slice, s, lambda idx, s2: res.append((base, idx, s2)) or []))
            if len(res) != 1 or res[0][2] is not st:
                raise Unsupported("subscript assignment target forks")
            base, idx, _ = res[0]
            self.setitem(base, idx, v, st)
            return
        raise Unsupported("assignment target %s" % type(t).__name__)

    def unpack(self, v, n, st):
        if isinstance(v, PyTup):
            if len(v.items) != n:
                raise Unsupported("unpack arity")
            return v.items
        if isinstance(v, Val) and v.ty[0] == "tup":
            if len(v.ty[1]) != n:
                raise Unsupported("unpack arity")
            return [tup_get(v, i) for i in range(n)]
        if isinstance(v, Val) and v.ty[0] == "opt" and v.ty[1][0] == "tup":
            # unpacking None is a TypeError: that path is split off by st_Assign (see unpack_guard)
            return self.unpack(opt_val(v), n, st)
        raise Unsupported("cannot unpack %r" % (v,))

    def setattr_val(self, base, attr, v, st):
        if isinstance(base, Val) and base.ty[0] == "ref":
            cn = base.ty[1]
            fd = self.field_decl(cn, attr)
            if fd is None:
                raise Unsupported("assignment to unmodelled field %s.%s" % (cn, attr))
            key, ty, ghost = fd
            if ghost and not self.ghost_mode:
                raise Unsupported("code writes ghost field " + key)
            if isinstance(v, CoroVal):
                v = self.coro_ref(st, v)
            if isinstance(v, EmptyList):
                if ty[0] == "list":
                    self.set_list(st, FldList(base.t, key, ty[1]), self.empty_list(ty[1]))
                    self.after_write(st, base, key)
                    return
                if ty[0] == "opt" and ty[1][0] == "list":
                    self.write_optlist(st, base.t, key, ty[1][1], self.empty_list(ty[1][1]))
                    return
                raise Unsupported("list assigned to field %s of type %r" % (key, ty))
            if ty[0] == "opt" and ty[1][0] == "list":
                if isinstance(v, PyConst) and v.v is None:
                    self.write_optlist(st, base.t, key, ty[1][1], None)
                else:
                    self.write_optlist(st, base.t, key, ty[1][1], self.as_lval(st, v, ty[1][1]))
                return
            if isinstance(v, PyTup) and ty[0] == "tup":
                v = tup_mk(ty, v.items)
            if isinstance(v, PyTup) and ty[0] == "opt" and ty[1][0] == "tup":
                v = opt_some(ty, tup_mk(ty[1], v.items))
            if isinstance(v, ClsVal):
                v = Val(ANY, cls_const(v.name))
            if isinstance(v, Singleton):
                v = self.singleton_ref(v)
            if isinstance(v, FuncVal):
                v = self.func_ref(st, v)
            self.write_field(st, base.t, key, ty, v)
            self.after_write(st, base, key)
            return
        raise Unsupported("attribute assignment on %r" % (base,))

    ghost_mode = False

    def after_write(self, st, base, key):
        pass

    def func_ref(self, st, fv):
        """callables stored in fields are opaque refs; remembered so they can be called back"""
        r = fresh("fn", RefS)
        st.assume(r != NULL)
        self.func_table = getattr(self, "func_table", {})
        self.func_table[r.get_id()] = fv
        return Val(REF("function"), r)

    def setitem(self, base, idx, v, st):
        if isinstance(base, DictFld):
            return self.dict_set(st, base, idx, v)
        if isinstance(base, (Cell, FldList)):
            lv = self.get_list(st, base)
            i = self.num(idx).t
            self.set_list(st, base, LVal(lv.ety, z3.Store(lv.arr, i, self.elem(v, lv.ety).t), lv.n, lv.kind))
            return
        raise Unsupported("item assignment on %r" % (base,))

    def st_Delete(self, stmt, st):
        for t in stmt.targets:
            if isinstance(t, ast.Subscript):
                res = []
                self.ev(t.value, st, lambda base, s: self.ev(t.slice, s, lambda idx, s2: res.append((base, idx)) or []) if not isinstance(t.slice, ast.Slice) else res.append((base, None)) or [])
                base, idx = res[0]
                if isinstance(base, DictFld):
                    outs = self.dict_del(st, base, idx)
                    return outs
                if isinstance(t.slice, ast.Slice) and isinstance(base, (Cell, FldList)):
                    return self.del_slice(st, base, t.slice)
                raise Unsupported("del on %r" % (base,))
            raise Unsupported("del statement")
        return [(N_, st)]

    def check_sequence_class(self, target, value, st):
        """representation obligation for fields declared with dsl.class_typed_sequence"""
        ct = getattr(self.reg, "class_typed", None)
        if not ct or not isinstance(target, ast.Attribute) or st.frame.spec or self.ghost_mode:
            return
        hits = [(c, f, a) for (c, f), a in ct.items() if f == target.attr]
        if not hits:
            return
        res = []
        self.ev(target.value, st, lambda o, s: res.append(o) or [])
        if len(res) != 1 or not isinstance(res[0], Val) or res[0].ty[0] != "ref":
            return
        obj = res[0]
        for (c, f, a) in hits:
            if obj.ty[1] is None or not self.static_subclass_safe(obj.ty[1], c):
                continue
            v = value
            if isinstance(v, ast.Call) and isinstance(v.func, ast.Attribute) and v.func.attr == a and not v.args and not v.keywords:
                continue        # self.<attr>(): an instance of the class the policy asks for
            # any other value (a slice, list(...), a comprehension ...) is a plain list
            bad = []
            for ci in [k for mod in self.repo.modules.values() for k in mod.classes.values()]:
                e = ci.attrs.get(a)
                if e is not None and not (isinstance(e, ast.Name) and e.id == "list") and self.static_subclass_safe(ci.name, c):
                    bad.append(ci.name)
            goal = z3.And(*[z3.Not(subclass(cls_of(obj.t), cls_const(n))) for n in bad]) if bad else z3.BoolVal(True)
            self.emit(st, "type", "sequence_class[%s.%s]" % (c, f),
                      "the value stored into %s.%s is a plain list: the receiver's class must not ask for another container class (%s = %s)"
                      % (c, f, a, ", ".join(bad) or "-"), goal)

    def del_slice(self, st, base, sl):
        if sl.lower is not None or sl.step is not None or sl.upper is None:
            raise Unsupported("del of general slice")
        res = []
        self.ev(sl.upper, st, lambda hi, s: res.append(hi) or [])
        hi = self.num(res[0]).t
        lv = self.get_list(st, base)
        hi = z3.If(hi < 0, z3.If(lv.n + hi < 0, 0, lv.n + hi), z3.If(hi > lv.n, lv.n, hi))
        j = z3.Int("j!ds")
        arr = z3.Lambda([j], z3.Select(lv.arr, j + hi))
        self.set_list(st, base, LVal(lv.ety, arr, lv.n - hi, lv.kind))
        return [(N_, st)]

    # ------------------------------------------------------------------ raise / assert
    def st_Raise(self, stmt, st):
        if stmt.exc is None:
            if not st.handling:
                raise Unsupported("bare raise outside handler")
            st.note("reraise")
            return [(Outcome("X", st.handling[-1]), st)]

        def got(v, s):
            if isinstance(v, ClsVal):
                return self.instantiate(v, [], {}, s, lambda obj, s2: finish(obj, s2))
            return finish(v, s)

        def finish(v, s):
            if isinstance(v, Val) and v.ty[0] == "opt":
                v = opt_val(v)
            if not (isinstance(v, Val) and v.ty[0] == "ref"):
                raise Unsupported("raise of %r" % (v,))
            if stmt.cause is not None:
                # `raise X from Y`: the cause is only stored on the exception object
                pass
            s.note("raise " + (v.ty[1] or "?"))
            return [(Outcome("X", v), s)]
        return self.ev(stmt.exc, st, got)

    def st_Assert(self, stmt, st):
        self.assert_counter = getattr(self, "assert_counter", {})
        fn = st.frame.func
        ordinal = self.assert_ordinal(fn, stmt)
        kind = self.assert_kind(fn, ordinal)

        def ok(s):
            return [(N_, s)]

        def bad(s):
            if kind == "assumed":
                self.assumptions_used.add("assert #%d in %s is assumed, not proved" % (ordinal, fn.fqn if isinstance(fn, FuncInfo) else fn))
                return []
            if kind == "usage":
                # the caller violated the documented usage: path is outside "valid programs"
                return self.raise_exc(s, "AssertionError", "usage#%d" % ordinal)
            return self.raise_exc(s, "AssertionError", "internal#%d" % ordinal)
        return self.truth(stmt.test, st, ok, bad, label="assert#%d" % ordinal)

    def assert_ordinal(self, fn, stmt):
        if not isinstance(fn, FuncInfo):
            return 0
        n = 0
        for node in ast.walk(fn.node):
            if isinstance(node, ast.Assert):
                n += 1
                if node is stmt:
                    return n
        return 0

    def assert_kind(self, fn, ordinal):
        if isinstance(fn, FuncInfo):
            c = self.reg.contracts.get(fn.fqn)
            if c is not None:
                return c.asserts.get(ordinal, "internal")
        return "internal"

    # ------------------------------------------------------------------ control flow
    def st_If(self, stmt, st):
        lab = "if@%d" % self.rel_line(st, stmt)

        def then(s):
            # flow typing: `if isinstance(name, Class):` narrows the static class of the local in the then-branch
            t = stmt.test
            if isinstance(t, ast.Call) and isinstance(t.func, ast.Name) and t.func.id == "isinstance" and len(t.args) == 2 \
                    and isinstance(t.args[0], ast.Name) and isinstance(t.args[1], ast.Name):
                v = s.frame.locals.get(t.args[0].id)
                cn = t.args[1].id
                if isinstance(v, Val) and v.ty[0] == "ref" and cn in self.reg.models and not self.reg.models[cn].value:
                    try:
                        ci = self.class_info(cn)
                        cur = self.class_info(v.ty[1]) if v.ty[1] else None
                    except KeyError:
                        ci = cur = None
                    if ci is not None and (cur is None or cur in self.repo.mro(ci)) and ci is not cur:
                        s.frame.locals[t.args[0].id] = Val(REF(ci.name), v.t)
            return self.exec_block(stmt.body, s)
        return self.truth(stmt.test, st,
                          then,
                          lambda s: self.exec_block(stmt.orelse, s) if stmt.orelse else [(N_, s)],
                          label=lab)

    def rel_line(self, st, node):
        """ordinal of the node among nodes of its kind in the function (stable under blank lines/comments)"""
        fn = st.frame.func
        if not isinstance(fn, FuncInfo):
            return 0
        cache = getattr(fn, "_ord", None)
        if cache is None:
            cache = {}
            counts = {}
            for n in ast.walk(fn.node):
                kname = type(n).__name__
                counts[kname] = counts.get(kname, 0) + 1
                cache[id(n)] = counts[kname]
            fn._ord = cache
        return cache.get(id(node), 0)

    def st_Try(self, stmt, st):
        outs = self.exec_block(stmt.body, st)
        after_handlers = []
        for o, s in outs:
            if o.kind == "X" and stmt.handlers:
                after_handlers.extend(self.dispatch_handlers(stmt.handlers, o.val, s, 0))
            elif o.kind == "N" and stmt.orelse:
                after_handlers.extend(self.exec_block(stmt.orelse, s))
            else:
                after_handlers.append((o, s))
        if not stmt.finalbody:
            return after_handlers
        res = []
        for o, s in after_handlers:
            for fo, fs in self.exec_block(stmt.finalbody, s):
                if fo.kind == "N":
                    res.append((o, fs))
                else:
                    res.append((fo, fs))   # finally overrides
        return res

    def dispatch_handlers(self, handlers, exc, st, i):
        if i == len(handlers):
            return [(Outcome("X", exc), st)]
        h = handlers[i]

        def matched(s):
            if h.name:
                s.frame.locals[h.name] = self.narrow_exc(exc, h, s)
            s.handling.append(exc)
            s.note("except@%d" % i)
            outs = self.exec_block(h.body, s)
            for o, s2 in outs:
                if s2.handling and s2.handling[-1] is exc:
                    s2.handling.pop()
                elif exc in s2.handling:
                    s2.handling.remove(exc)
            return outs

        def not_matched(s):
            return self.dispatch_handlers(handlers, exc, s, i + 1)
        if h.type is None:
            return matched(st)
        res = []

        def with_type(tv, s):
            cond = z3.And(exc.t != NULL, self.subclass_term(cls_of(exc.t), tv, s))
            return self.split(s, cond, matched, not_matched)
        return self.ev(h.type, st, with_type)

    def narrow_exc(self, exc, h, st):
        """static class of `except X as err` variable"""
        if isinstance(h.type, ast.Name):
            try:
                v = self.lookup_name(h.type.id, st)
            except Unsupported:
                return exc
            if isinstance(v, ClsVal) and v.info is not None:
                cur = exc.ty[1]
                if cur is None or not self.static_subclass_safe(cur, v.name):
                    return Val(REF(v.name), exc.t)
        return exc

    def static_subclass_safe(self, a, b):
        try:
            return self.static_subclass(a, b)
        except KeyError:
            return False

    # ------------------------------------------------------------------ loops
    def st_While(self, stmt, st):
        return self.exec_loop(stmt, st, kind="while")

    def st_For(self, stmt, st):
        return self.exec_for(stmt, st)

    def st_AsyncFor(self, stmt, st):
        return self.exec_async_for(stmt, st)

    def st_With(self, stmt, st):
        return self.exec_with(stmt, st, is_async=False)

    def st_AsyncWith(self, stmt, st):
        return self.exec_with(stmt, st, is_async=True)
