"""./check <ID> --tier quick|thorough : decide one property on /repo's current working tree.

exit 0  property held on everything generated (known findings printed as KNOWN-FINDING)
exit 1  VIOLATION property=<id> replay=<path>  (an obligation is refuted, or -- code changed w.r.t. the
        baseline -- no longer discharged: then the line ends with no-failing-input-found)
exit 2  undecided (solver gave up on unchanged code, code left the supported subset, spec drift)
exit 3  checker crash
"""
import argparse
import importlib
import json
import os
import subprocess
import sys
import time
import traceback

VERIF = os.path.dirname(os.path.dirname(os.path.abspath(__file__)))
sys.path.insert(0, VERIF)

from . import dsl          # noqa: E402
from . import runner       # noqa: E402
from .repo import RepoIndex, REPO_ROOT   # noqa: E402

BASELINE = os.path.join(VERIF, "baseline", "obligations.json")
KNOWN = os.path.join(VERIF, "known_findings.json")
TRUSTED_BASE = [
    "pyvc: own AST->VC generator (symbolic executor over the Python subset of DESIGN 3.2); validated by mutants and CPython cross-checks, not proved",
    "z3 5.1.0 (python API) for unsat answers; cvc5 1.0.3 / z3 4.8.12 for z3-unknowns and for the thorough cross-check",
    "CPython semantics of the supported subset as encoded (evaluation order, truthiness, exceptions, generators, contextmanager, async with)",
    "floats treated as mathematical reals; float('inf') an unconstrained positive constant",
    "stdlib/third-party containers (list, deque, dict, heapq, sortedcontainers, takewhile, WeakSet membership) by built-in models",
    "rely/guarantee meta-theorem for cooperative scheduling (DESIGN 3.6): premises machine-checked, induction over schedules on paper",
]


def load_all():
    for m in runner.contract_modules():
        importlib.import_module("contracts." + m)
    return dsl.REG


def closure_of(reg, prop):
    out = []
    for fqn, c in reg.contracts.items():
        if fqn.startswith("abstract:") or c.assumed:
            continue
        if prop in c.props or prop == "ALL":
            out.append(fqn)
    return out


def obligation_key(name):
    """function/clause without the path hash (stable id of the clause)"""
    parts = name.rsplit("/", 1)
    return parts[0]


def load_json(path, default):
    try:
        with open(path) as fh:
            return json.load(fh)
    except (OSError, ValueError):
        return default


def sources_changed(baseline, repo):
    cur = repo.source_hashes()
    base = baseline.get("source_hashes", {})
    return sorted(m for m in set(cur) | set(base) if cur.get(m) != base.get(m))


def match_known(known, prop, ob):
    for k in known.get("findings", []):
        if k.get("status") != "open":
            continue
        if prop not in k.get("properties", [k.get("property")]):
            continue
        if k["obligation"] == obligation_key(ob["name"]) or k["obligation"] == ob["name"]:
            if k.get("path") and k["path"] != ob["name"].rsplit("/", 1)[-1]:
                continue
            return k
    return None


def write_replay(prop, rec, ob, changed):
    d = os.path.join(VERIF, "replays", prop)
    os.makedirs(d, exist_ok=True)
    safe = ob["name"].replace("/", "__").replace("[", "_").replace("]", "_").replace("(", "_").replace(")", "_").replace(" ", "")
    path = os.path.join(d, safe[-150:] + ".json")
    doc = {"property": prop, "function": rec["function"], "obligation": ob["name"], "clause": ob["clause"],
           "kind": ob["kind"], "verdict": ob["verdict"], "path_signature": ob["path"],
           "model": ob.get("model"), "goal": ob.get("goal"), "solver": ob.get("backend"), "reason": ob.get("reason"),
           "changed_modules": changed,
           "how_to_replay": "./check %s --replay %s" % (prop, os.path.relpath(path, VERIF))}
    with open(path, "w") as fh:
        json.dump(doc, fh, indent=1)
    return os.path.relpath(path, VERIF)


def run_scenario_replay(prop, rec, ob):
    """property-level replay on the real code (replay/<prop>.py in /verif), if one exists for this obligation"""
    from . import replay
    return replay.try_replay(prop, rec, ob)


def main(argv=None):
    ap = argparse.ArgumentParser()
    ap.add_argument("prop", nargs="?")
    ap.add_argument("--tier", default=os.environ.get("VERIF_TIER", "quick"))
    ap.add_argument("--replay")
    ap.add_argument("--baseline", action="store_true", help="(re)write baseline/obligations.json from the current tree")
    ap.add_argument("--setup", action="store_true")
    ap.add_argument("--jobs", type=int, default=16)
    ap.add_argument("--verbose", action="store_true")
    args = ap.parse_args(argv)
    t0 = time.time()
    try:
        if args.setup:
            from . import setup_check
            return setup_check.main()
        reg = load_all()
        repo = RepoIndex()
        if args.baseline:
            return write_baseline(reg, repo, args)
        if args.replay:
            from . import replay
            return replay.replay_file(args.prop, args.replay)
        return check_property(reg, repo, args, t0)
    except SystemExit:
        raise
    except Exception:
        traceback.print_exc()
        return 3


def write_baseline(reg, repo, args):
    fqns = closure_of(reg, "ALL")
    recs = runner.verify_functions(fqns, tier="quick", jobs=args.jobs)
    out = {"source_hashes": repo.source_hashes(), "functions": {}, "obligations": {}}
    bad = 0
    for r in recs:
        out["functions"][r["function"]] = {"ast_hash": r.get("ast_hash"), "status": r["status"], "n": len(r["obligations"]),
                                           "deps_hash": r.get("deps_hash")}
        if r["status"] != "ok":
            print("UNDECIDED", r["function"], r.get("error"))
            bad += 1
        for o in r["obligations"]:
            out["obligations"][o["name"]] = o["verdict"]
            if o["verdict"] != "discharged":
                print(o["verdict"].upper(), o["name"], "|", o["clause"][:100])
                bad += 1
    os.makedirs(os.path.dirname(BASELINE), exist_ok=True)
    with open(BASELINE, "w") as fh:
        json.dump(out, fh, indent=0, sort_keys=True)
    print("baseline: %d functions, %d obligations, %d not discharged" % (len(recs), len(out["obligations"]), bad))
    return 0


def check_property(reg, repo, args, t0):
    prop = args.prop
    tier = args.tier if args.tier in ("quick", "thorough") else "quick"
    seed = int(os.environ.get("VERIF_SEED", "0") or 0)
    fqns = closure_of(reg, prop)
    baseline = load_json(BASELINE, {})
    known = load_json(KNOWN, {"findings": []})
    if not fqns:
        print("no function under contract serves %s" % prop)
        return 3
    recs = runner.verify_functions(fqns, tier=tier, jobs=args.jobs)
    from . import extra
    extra_recs = extra.run_extras(prop, reg, repo, tier)
    recs = recs + extra_recs
    changed = sources_changed(baseline, repo)
    n_obl = n_dis = n_known = 0
    violations = []
    undecided = []
    crashes = []
    known_lines = []
    by_backend = {}
    solver_time = 0.0
    samples = []
    paths = infeasible = 0
    assumptions = set()
    inlined = set()
    funcs = []
    disagreements = []
    cross_counts = {}
    bounded_hits = []
    for r in recs:
        funcs.append({"function": r["function"], "ast_hash": r.get("ast_hash"), "obligations": len(r["obligations"]),
                      "status": r["status"], "paths": r.get("paths", 0)})
        paths += r.get("paths", 0)
        infeasible += r.get("infeasible", 0)
        assumptions.update(r.get("assumptions", []))
        inlined.update(r.get("inlined", []))
        if r["status"] == "crash":
            crashes.append(r)
            continue
        if r["status"] == "undecided":
            base_f0 = baseline.get("functions", {}).get(r["function"], {})
            if base_f0 and base_f0.get("ast_hash") != r.get("ast_hash"):
                # The function was changed into something the verifier cannot read.  No obligation can be generated, so
                # nothing is proved or refuted here; the bounded stand-in is the scenario library of this property (concrete
                # programs with asserted expectations that all pass on the committed tree): a scenario that fails now is a
                # failing input on the real code.  Otherwise the function stays undecided.
                try:
                    from . import replay as _rp
                    rr = _rp.try_replay(prop, r, {"name": r["function"] + "/<unsupported>/0"})
                except Exception as e:
                    rr = {"status": "replay-error", "detail": str(e)}
                if rr and rr.get("status") == "reproduced":
                    bounded_hits.append((r, rr))
                    continue
            undecided.append((r["function"], r.get("error")))
        if r["status"] == "ok" and not r["obligations"] and not r.get("allow_empty"):
            undecided.append((r["function"], "zero obligations generated (vacuity guard)"))
        for o in r["obligations"]:
            if prop not in (o.get("props") or [prop]) and o.get("props"):
                # obligation of a shared function that serves other properties only
                if prop not in o["props"]:
                    continue
            n_obl += 1
            solver_time += o.get("time", 0)
            be = o.get("backend", "?")
            if "(relevant " in be:
                be = be.split("(relevant ")[0] + " (cone of influence of the goal only)"
            by_backend[be] = by_backend.get(be, 0) + 1
            if len(samples) < 6 and o["kind"] not in ("frame",):
                samples.append({"obligation": o["name"], "clause": o["clause"][:160], "path": o["path"][:200],
                                "verdict": o["verdict"], "backend": o.get("backend"), "time_s": o.get("time")})
            if o.get("cross"):
                ck = "%s:%s" % (o["cross"].get("backend"), o["cross"].get("verdict"))
                cross_counts[ck] = cross_counts.get(ck, 0) + 1
            if o.get("cross") and o["cross"]["verdict"] == "sat" and o["verdict"] == "discharged":
                disagreements.append(o["name"])
            if o["verdict"] == "discharged":
                n_dis += 1
                continue
            k = match_known(known, prop, o)
            if k is not None:
                n_known += 1
                known_lines.append("KNOWN-FINDING: property=%s %s -- %s" % (prop, k["obligation"], k["what"]))
                continue
            if o["verdict"] == "refuted":
                violations.append((r, o, True))
            else:
                base_f = baseline.get("functions", {}).get(r["function"], {})
                code_changed = base_f.get("deps_hash") != r.get("deps_hash")
                if code_changed:
                    # discharged for the baseline source of this function (and its inlined callees), not any more
                    violations.append((r, o, False))
                else:
                    undecided.append((o["name"], "solver: %s" % o.get("reason", "unknown")))
    # ------------------------------------------------------------------ report
    for line in sorted(set(known_lines)):
        print(line)
    viol_out = []
    for (r, o, has_model) in violations:
        rp = write_replay(prop, r, o, changed)
        replayed = None
        if has_model or True:
            try:
                replayed = run_scenario_replay(prop, r, o)
            except Exception as e:      # replay machinery must never turn into a verdict
                replayed = {"status": "replay-error", "detail": str(e)}
        tail = ""
        if not (replayed and replayed.get("status") == "reproduced"):
            tail = " no-failing-input-found"
        else:
            rp = replayed.get("path", rp)
        print("VIOLATION property=%s replay=%s%s" % (prop, rp, tail))
        print("   obligation: %s" % o["name"])
        print("   clause    : %s" % o["clause"][:200])
        print("   path      : %s" % o["path"][:300])
        print("   verdict   : %s (%s)%s" % (o["verdict"], o.get("backend"), "" if has_model else " -- was discharged on the baseline tree; changed modules: %s" % ", ".join(changed)))
        viol_out.append({"obligation": o["name"], "replay": rp, "reproduced": bool(replayed and replayed.get("status") == "reproduced")})
    for (r, rr) in bounded_hits:
        print("VIOLATION property=%s replay=%s" % (prop, rr["path"]))
        print("   function  : %s was changed and left the verifier's subset (%s)" % (r["function"], r.get("error")))
        print("   decided by: BOUNDED stand-in -- scenario %s fails on the current tree (it passes on the committed one)" % rr["path"])
        viol_out.append({"obligation": r["function"] + " (outside the subset; bounded scenario)", "replay": rr["path"], "reproduced": True,
                         "bounded": True})
    if crashes:
        for r in crashes:
            print("CHECKER-CRASH in %s: %s" % (r["function"], r.get("error")))
            if args.verbose:
                print(r.get("trace"))
    for name, why in undecided:
        print("UNDECIDED %s: %s" % (name, why))
    if disagreements:
        print("SOLVER-DISAGREEMENT on: %s" % ", ".join(disagreements))
    wall = time.time() - t0
    evidence = {
        "property_id": prop, "tier": tier, "seed": seed, "level": "proof",
        "coverage": {
            # obligations that have to hold for the claim (the ones listed as open known findings are counted apart:
            # they are generated and checked on every run, are expected NOT to discharge, and are printed as KNOWN-FINDING)
            "obligations": n_obl - n_known, "discharged": n_dis,
            "obligations_generated": n_obl,
            "known_findings": n_known,
            "known_finding_lines": sorted(set(known_lines)),
            "checker_cmd": "./check %s --tier %s" % (prop, tier),
            "trusted_base": TRUSTED_BASE,
            "functions_under_contract": funcs,
            "by_backend": by_backend, "solver_time_s": round(solver_time, 3),
            # thorough tier: independent second answer (cvc5 1.0.3, then z3 4.8.12) on a portable SMT-LIB dump of each
            # discharged obligation; "cli:unknown" = neither answered within its budget or the dump was too large
            "cross_check": cross_counts,
            "paths_enumerated": paths, "paths_infeasible": infeasible,
            "inlined_uncontracted_callees": sorted(inlined),
            "samples": samples,
            "undecided": [list(u) for u in undecided][:50],
            "violations": viol_out,
            "changed_modules_vs_baseline": changed,
            "extras": [e.get("summary") for e in extra_recs if e.get("summary")],
        },
        "assumptions": sorted(assumptions) + extra.static_assumptions(prop),
        "wall_s": round(wall, 2),
        "violations": len(violations) + len(bounded_hits),
    }
    os.makedirs(os.path.join(VERIF, "evidence"), exist_ok=True)
    with open(os.path.join(VERIF, "evidence", prop + ".json"), "w") as fh:
        json.dump(evidence, fh, indent=1)
    print("%s: %d obligations, %d discharged, %d known findings, %d violations, %d undecided  (%.1fs, tier %s)" % (
        prop, n_obl, n_dis, n_known, len(violations) + len(bounded_hits), len(undecided), wall, tier))
    if crashes or disagreements:
        return 3
    if violations or bounded_hits:
        return 1
    if undecided:
        return 2
    return 0


if __name__ == "__main__":
    sys.exit(main())
