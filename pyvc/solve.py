"""Back ends: z3 (python API) first; unknowns go to cvc5 / z3 4.8.12 CLI through an SMT-LIB dump."""
import hashlib
import os
import subprocess
import tempfile
import time
import z3

Z3_TIMEOUT_MS = int(os.environ.get("PYVC_Z3_TIMEOUT_MS", "8000"))
try:
    z3.set_param("memory_max_size", int(os.environ.get("PYVC_Z3_MEMORY_MB", "6000")))
except Exception:
    pass
CLI_TIMEOUT_S = int(os.environ.get("PYVC_CLI_TIMEOUT_S", "8"))
# the budget of a query is counted in z3 resource units (deterministic: a verdict does not depend on how busy the
# machine is); ~1.2e6 units per second on the reference machine.  The wall-clock timeout is a safety net only.
RLIMIT_PER_MS = int(os.environ.get("PYVC_RLIMIT_PER_MS", "1200"))
WALL_FACTOR = 10


def delambda(fmls):
    """replace z3 lambda terms by fresh arrays with a quantified definition (portable SMT-LIB)"""
    defs = []
    cache = {}
    counter = [0]

    def walk(t):
        key = t.get_id()
        if key in cache:
            return cache[key]
        if z3.is_quantifier(t) and t.is_lambda():
            n = t.num_vars()
            body = walk(t.body())
            counter[0] += 1
            arr = z3.Const("lam!%d" % counter[0], t.sort())
            vs = [z3.Const("lv!%d_%d" % (counter[0], i), t.var_sort(i)) for i in range(n)]
            # de Bruijn: var 0 is the innermost (last) bound variable
            inst = z3.substitute_vars(body, *reversed(vs))
            sel = arr
            for v in vs:
                sel = z3.Select(sel, v)
            free = free_vars_guard(inst)
            defs.append(z3.ForAll(vs, sel == inst))
            cache[key] = arr
            return arr
        if z3.is_quantifier(t):
            n = t.num_vars()
            body = walk(t.body())
            if body.eq(t.body()):
                cache[key] = t
                return t
            vs = [z3.Const("qv!%d_%d" % (key, i), t.var_sort(i)) for i in range(n)]
            inst = z3.substitute_vars(body, *reversed(vs))
            r = z3.ForAll(vs, inst) if t.is_forall() else z3.Exists(vs, inst)
            cache[key] = r
            return r
        if z3.is_app(t):
            ch = t.children()
            if not ch:
                cache[key] = t
                return t
            nch = [walk(c) for c in ch]
            if all(a.eq(b) for a, b in zip(ch, nch)):
                cache[key] = t
                return t
            r = t.decl()(*nch)
            cache[key] = r
            return r
        cache[key] = t
        return t

    out = [walk(f) for f in fmls]
    return out + defs


def free_vars_guard(t):
    return None


def to_smt2(fmls, logic="ALL"):
    s = z3.Solver()
    for f in fmls:
        s.add(f)
    txt = s.to_smt2()
    return "(set-logic %s)\n" % logic + txt.replace("(set-info :status unknown)\n", "")


def check(axioms, pc, goal, want_model=True, timeout_ms=None):
    """-> (verdict, model_or_None, seconds, backend)   verdict in discharged/refuted/unknown"""
    t0 = time.time()
    if len(pc) > 40 and not os.environ.get("PYVC_NO_RELEVANCE"):
        # first try with the hypotheses in the cone of influence of the goal only (sound: fewer hypotheses)
        for rounds in (1, 2):
            sub = relevant_subset(pc, goal, rounds=rounds)
            if len(sub) >= len(pc):
                break
            s = z3.Solver()
            pre_ms = min(3000, timeout_ms or Z3_TIMEOUT_MS)
            s.set("rlimit", pre_ms * RLIMIT_PER_MS)
            s.set("timeout", pre_ms * WALL_FACTOR)
            for a in axioms:
                s.add(a)
            for c in sub:
                s.add(c)
            s.add(z3.Not(goal))
            if s.check() == z3.unsat:
                return "discharged", None, time.time() - t0, "z3-%s(relevant %d/%d)" % (z3.get_version_string(), len(sub), len(pc))
    s = z3.Solver()
    s.set("rlimit", (timeout_ms or Z3_TIMEOUT_MS) * RLIMIT_PER_MS)
    s.set("timeout", (timeout_ms or Z3_TIMEOUT_MS) * WALL_FACTOR)
    for a in axioms:
        s.add(a)
    for c in pc:
        s.add(c)
    s.add(z3.Not(goal))
    r = s.check()
    dt = time.time() - t0
    if r == z3.unsat:
        return "discharged", None, dt, "z3-%s" % z3.get_version_string()
    if r == z3.sat:
        return "refuted", (s.model() if want_model else None), dt, "z3-%s" % z3.get_version_string()
    # unknown: optionally retry with other engines on a portable dump (off by default: the dump of large
    # lambda-heavy formulas is expensive and cvc5/z3-4.8 rarely decide what z3 5.x left open)
    reason = s.reason_unknown()
    if os.environ.get("PYVC_CLI_FALLBACK"):
        fmls = list(axioms) + list(pc) + [z3.Not(goal)]
        v, be = cli_check(fmls)
        dt = time.time() - t0
        if v == "unsat":
            return "discharged", None, dt, be
        if v == "sat":
            return "refuted", None, dt, be
    return "unknown", reason, time.time() - t0, "z3-%s" % z3.get_version_string()


def term_size(fmls, limit):
    seen = set()
    stack = list(fmls)
    while stack:
        t = stack.pop()
        i = t.get_id()
        if i in seen:
            continue
        seen.add(i)
        if len(seen) > limit:
            return len(seen)
        if z3.is_quantifier(t):
            stack.append(t.body())
        else:
            stack.extend(t.children())
    return len(seen)


def cli_check(fmls, solvers=("cvc5", "z3old")):
    if term_size(fmls, 30000) > 30000:
        return "unknown", "too-large-for-portable-dump"
    try:
        port = delambda(fmls)
        txt = to_smt2(port)
    except Exception as e:   # portable dump failed: stay unknown
        return "unknown", "dump-failed:%s" % e
    with tempfile.NamedTemporaryFile("w", suffix=".smt2", delete=False, dir=os.environ.get("PYVC_TMP", None)) as fh:
        fh.write(txt)
        path = fh.name
    try:
        for sv in solvers:
            if sv == "cvc5":
                cmd = ["/usr/bin/cvc5", "--tlimit=%d" % (CLI_TIMEOUT_S * 1000), path]
            else:
                cmd = ["/usr/bin/z3", "-T:%d" % CLI_TIMEOUT_S, path]
            try:
                out = subprocess.run(cmd, capture_output=True, text=True, timeout=CLI_TIMEOUT_S + 5).stdout.strip().split("\n")[0]
            except Exception:
                continue
            if out in ("unsat", "sat"):
                return out, {"cvc5": "cvc5-1.0.3", "z3old": "z3-4.8.12"}[sv]
        return "unknown", "cli"
    finally:
        try:
            os.unlink(path)
        except OSError:
            pass


def cross_check(axioms, pc, goal):
    """thorough tier: independent answer of cvc5 / old z3 on the portable dump -> 'unsat'|'sat'|'unknown'"""
    fmls = list(axioms) + list(pc) + [z3.Not(goal)]
    return cli_check(fmls)


def model_summary(model, terms):
    out = {}
    if model is None or isinstance(model, str):
        return out
    for name, t in terms.items():
        try:
            out[name] = str(model.eval(t, model_completion=True))
        except Exception:
            pass
    return out


# --------------------------------------------------------------------------- relevance filtering
_UBIQ = {"cls_of", "subclass", "birth", "null", "truthy", "the_loop", "me"}


def symbols_of(t, cache):
    """uninterpreted constants / functions (incl. heap arrays) occurring in t"""
    key = t.get_id()
    if key in cache:
        return cache[key]
    out = set()
    stack = [t]
    seen = set()
    while stack:
        x = stack.pop()
        i = x.get_id()
        if i in seen:
            continue
        seen.add(i)
        if z3.is_quantifier(x):
            stack.append(x.body())
            continue
        if z3.is_app(x):
            d = x.decl()
            if d.kind() == z3.Z3_OP_UNINTERPRETED:
                n = d.name()
                if n not in _UBIQ and not n.startswith("cls!") and not n.startswith("str!"):
                    out.add(n)
            stack.extend(x.children())
    cache[key] = out
    return out


def relevant_subset(pc, goal, rounds=3):
    cache = {}
    syms = set(symbols_of(goal, cache))
    chosen = [False] * len(pc)
    psyms = [symbols_of(c, cache) for c in pc]
    for _ in range(rounds):
        grew = False
        for i, ps in enumerate(psyms):
            if not chosen[i] and (not ps or ps & syms):
                chosen[i] = True
                if not ps <= syms:
                    syms |= ps
                    grew = True
        if not grew:
            break
    return [c for c, ch in zip(pc, chosen) if ch]
