"""Per-property extras beyond function contracts: lemmas over contracts, whole-repo scans (DESIGN 3.6 W)."""


def run_extras(prop, reg, repo, tier):
    out = []
    try:
        from . import scans
    except ImportError:
        return out
    out.extend(scans.run_for(prop, reg, repo, tier))
    return out


def static_assumptions(prop):
    return []
