"""Expression evaluation (continuation passing; an expression may fork or raise)."""
import ast
import z3
from .core import *   # noqa
from .base import Outcome, N_, DictLit, DictFld, LOOP, STATE_OBJ, HIBERNATE, INF
from .repo import BUILTIN_EXC, ClassInfo, FuncInfo

SINGLETON_NAMES = {"__USIM_STATE__": "state", "__LOOP_STATE__": "state", "__HIBERNATE__": "hibernate"}

BUILTIN_FUNCS = {
    "len", "isinstance", "issubclass", "all", "any", "sum", "type", "list", "tuple", "dict", "frozenset",
    "next", "iter", "enumerate", "zip", "getattr", "hasattr", "object", "float", "sorted", "map", "repr",
    "super", "bool", "int", "min", "max", "range", "id", "str", "set", "deque", "callable", "abs", "print",
    "takewhile", "reversed", "heappush", "heappop", "SortedDict", "ExitStack", "WeakSet", "islice",
    # spec-only
    "old", "implies", "iff", "ite", "forall", "exists", "at", "typeof", "dead", "live", "unchanged",
    "seq_eq", "fresh_obj", "allocated", "is_instance_exact", "last_yield", "store", "anything", "real", "whole", "bound_method",
}


class ExprMixin:
    # ------------------------------------------------------------------ entry points
    def ev(self, e, st, k):
        m = getattr(self, "ev_" + type(e).__name__, None)
        if m is None:
            raise Unsupported("expression %s: %s" % (type(e).__name__, ast.unparse(e)))
        return m(e, st, k)

    def ev_list(self, es, st, k, acc=None):
        """evaluate expressions left to right"""
        acc = acc or []
        if not es:
            return k(acc, st)
        return self.ev(es[0], st, lambda v, st2: self.ev_list(es[1:], st2, k, acc + [v]))

    def raise_exc(self, st, clsname, note=None):
        """raise a fresh exception instance of a (builtin or repo) class"""
        exc = self.alloc(st, clsname, "exc")
        st.note("raise " + clsname + (":" + note if note else ""))
        return [(Outcome("X", exc), st)]

    # ------------------------------------------------------------------ atoms
    def ev_Constant(self, e, st, k):
        v = e.value
        if isinstance(v, bool):
            return k(mk_bool(v), st)
        if isinstance(v, int):
            return k(mk_int(v), st)
        if isinstance(v, float):
            return k(mk_real(v), st)
        return k(PyConst(v), st)

    def ev_JoinedStr(self, e, st, k):
        return k(PyConst("<fstring>"), st)

    def lookup_name(self, name, st):
        fr = st.frame
        if name in fr.locals:
            return fr.locals[name]
        if fr.closure is not None and name in fr.closure:
            return fr.closure[name]
        if name in SINGLETON_NAMES:
            return Singleton(SINGLETON_NAMES[name])
        if name == "__debug__":
            return mk_bool(True)
        if fr.spec:
            if name == "loop":
                return Val(REF("Loop"), LOOP)
            if name == "null":
                return NONE
            sf = self.reg.spec_funcs.get(name)
            if sf is not None:
                return FuncVal("specfunc", name=name)
            if name in self.reg.spec_rec:
                return FuncVal("specrec", name=name)
        mod = fr.module
        if mod is not None:
            r = self.repo.resolve_global(mod, name)
            if r is not None:
                return self.global_value(r, name, st)
        if name in BUILTIN_EXC:
            return ClsVal(name)
        if name in BUILTIN_FUNCS:
            return FuncVal("builtin", name=name)
        if fr.spec:
            # class names are usable in clauses without imports
            try:
                ci = self.repo.cls(name)
            except KeyError:
                ci = None
            if ci is not None:
                return ClsVal(ci.name, ci)
            if name in self.reg.models:
                return ClsVal(name)
        raise Unsupported("unresolved name %r in %s" % (name, fr.func.fqn if isinstance(fr.func, FuncInfo) else fr.func))

    def global_value(self, r, name, st):
        kind = r[0]
        if kind == "class":
            return ClsVal(r[1].name, r[1])
        if kind == "func":
            return FuncVal("repo", info=r[1])
        if kind == "module":
            return ModuleVal(r[1])
        if kind == "external":
            if r[1] == "inspect" and r[2] in ("CORO_CREATED", "CORO_SUSPENDED", "CORO_RUNNING", "CORO_CLOSED"):
                return mk_int({"CORO_CREATED": 0, "CORO_SUSPENDED": 1, "CORO_RUNNING": 2, "CORO_CLOSED": 3}[r[2]])
            return FuncVal("builtin", name=r[2], extra=r[1])
        if kind == "assign":
            mod, expr = r[1], r[2]
            src = ast.unparse(expr)
            if src in ("StateHandler()",):
                return Singleton("state")
            if src == "Hibernate()":
                return Singleton("hibernate")
            if src == "Time()":
                return Singleton("time")
            if src == "Eternity()":
                return Singleton("eternity")
            if src == "Instant()":
                return Singleton("instant")
            if src.startswith("TypeVar("):
                return PyConst("<typevar>")
            # constant tables etc: evaluate in the defining module, without state effects
            fr = type(st.frame)("<module %s>" % mod.name, mod)
            st.frames.append(fr)
            try:
                res = []
                self.ev(expr, st, lambda v, s: res.append(v) or [])
            finally:
                st.frames.pop()
            if len(res) != 1:
                raise Unsupported("module constant %s" % name)
            return res[0]
        raise Unsupported("global %r" % (r,))

    def ev_Name(self, e, st, k):
        return k(self.lookup_name(e.id, st), st)

    def ev_Tuple(self, e, st, k):
        if any(isinstance(x, ast.Starred) for x in e.elts):
            return self.ev_starred_seq(e.elts, st, lambda items, s: k(PyTup(items), s))
        return self.ev_list(e.elts, st, lambda vs, s: k(PyTup(vs), s))

    def ev_List(self, e, st, k):
        def done(vs, s):
            if s.frame.spec:
                return k(PyTup(vs, "list"), s)
            if not vs:
                return k(EmptyList("list"), s)
            lv = self.as_lval(s, PyTup(vs))
            return k(self.new_cell(s, lv), s)
        return self.ev_list(e.elts, st, done)

    def ev_Dict(self, e, st, k):
        if e.keys:
            raise Unsupported("non-empty dict literal")
        return k(DictLit({}), st)

    def ev_starred_seq(self, elts, st, k):
        def step(i, acc, s):
            if i == len(elts):
                return k(acc, s)
            x = elts[i]
            if isinstance(x, ast.Starred):
                return self.ev(x.value, s, lambda v, s2: step(i + 1, acc + [StarItem(v)], s2))
            return self.ev(x, s, lambda v, s2: step(i + 1, acc + [v], s2))
        return step(0, [], st)

    def ev_Lambda(self, e, st, k):
        env = dict(st.frame.closure or {})
        env.update(st.frame.locals)
        return k(FuncVal("lambda", info=e, extra=(env, st.frame.module, st.frame.defcls)), st)

    def ev_IfExp(self, e, st, k):
        return self.truth(e.test, st,
                          lambda s: self.ev(e.body, s, k),
                          lambda s: self.ev(e.orelse, s, k), label=None)

    # ------------------------------------------------------------------ truthiness
    def truth(self, e, st, k_true, k_false, label=None):
        """evaluate expression e in boolean context and fork"""
        if isinstance(e, ast.UnaryOp) and isinstance(e.op, ast.Not):
            return self.truth(e.operand, st, k_false, k_true, label)
        if isinstance(e, ast.BoolOp) and st.in_spec:
            terms = [self.eval_clause(v, st, frame=st.frame) for v in e.values]
            t = z3.And(*terms) if isinstance(e.op, ast.And) else z3.Or(*terms)
            return self.split(st, t, k_true, k_false, label)
        if isinstance(e, ast.BoolOp):
            vals = e.values
            if isinstance(e.op, ast.And):
                def step(i, s):
                    if i == len(vals) - 1:
                        return self.truth(vals[i], s, k_true, k_false)
                    return self.truth(vals[i], s, lambda s2: step(i + 1, s2), k_false)
                return step(0, st)
            else:
                def step(i, s):
                    if i == len(vals) - 1:
                        return self.truth(vals[i], s, k_true, k_false)
                    return self.truth(vals[i], s, k_true, lambda s2: step(i + 1, s2))
                return step(0, st)
        return self.ev(e, st, lambda v, s: self.truth_val(v, s, k_true, k_false, label))

    def truth_val(self, v, st, k_true, k_false, label=None):
        return self.bool_of(v, st, lambda b, s: self.split(s, b, k_true, k_false, label))

    def bool_of(self, v, st, k):
        """k(z3 Bool, st): truth value of a python value (may call __bool__)"""
        if isinstance(v, Val):
            kd = v.ty[0]
            if kd == "bool":
                return k(v.t, st)
            if kd == "int":
                return k(v.t != 0, st)
            if kd == "real":
                return k(v.t != 0, st)
            if kd == "opt":
                inner = opt_val(v)
                return self.bool_of(inner, st, lambda b, s: k(z3.And(z3.Not(opt_is_none(v)), b), s))
            if kd == "tup":
                return k(z3.BoolVal(len(v.ty[1]) > 0), st)
            if kd == "ref":
                cn = v.ty[1]
                if cn is None:
                    # opaque object: None is falsy, otherwise uninterpreted (pure)
                    return k(z3.And(v.t != NULL, truthy(v.t)), st)
                return self.call_dunder_bool(v, st, k)
            if kd == "str":
                return k(v.t != NULL, st)
        if isinstance(v, PyConst):
            return k(z3.BoolVal(bool(v.v)), st)
        if isinstance(v, (Cell, FldList, LVal)) or type(v).__name__ == "DictEntryList":
            lv = self.get_list(st, v)
            return k(lv.n > 0, st)
        if isinstance(v, PyTup):
            return k(z3.BoolVal(len(v.items) > 0), st)
        if isinstance(v, EmptyList):
            return k(z3.BoolVal(False), st)
        if isinstance(v, (ClsVal, FuncVal, CoroVal, Singleton)):
            return k(z3.BoolVal(True), st)
        if isinstance(v, OptList):
            return k(z3.And(z3.Not(v.none), self.get_list(st, v.lst).n > 0), st)
        if isinstance(v, DictFld):
            return k(self.dict_len(st, v) > 0, st)
        raise Unsupported("truth value of %r" % (v,))

    def call_dunder_bool(self, v, st, k):
        cn = v.ty[1]
        vm = self.model_of(cn)
        if vm is not None and vm.value:
            return k(z3.BoolVal(True), st) if self.find_repo_method(cn, "__bool__") is None else \
                self.call_method(v, "__bool__", [], {}, st, lambda r, s: self.bool_of(r, s, k))
        if ("abstract:%s.__bool__" % cn) in self.reg.contracts:
            return self.call_method(v, "__bool__", [], {}, st, lambda r, s: self.bool_of(r, s, k))
        m = self.find_repo_method(cn, "__bool__")
        if m is not None and self.is_abstract_method(m):
            # abstract truth value: a volatile ghost (pure function of the heap within one atomic segment)
            arr = st.harr(self.ABSTRACT_TRUTH, z3.ArraySort(RefS, z3.BoolSort()))
            t = z3.Select(arr, v.t)
            self.dispatch_axioms(st, v, t, cn)
            return k(t, st)
        if m is None:
            lm = self.find_repo_method(cn, "__len__")
            if lm is not None:
                return self.call_method(v, "__len__", [], {}, st, lambda r, s: self.bool_of(r, s, k))
            return k(v.t != NULL, st)

        def after(r, s):
            return self.bool_of(r, s, lambda b, s2: k(z3.And(v.t != NULL, b) if False else b, s2))
        # `None` of an optional object field is falsy without calling __bool__
        return self.split(st, v.t == NULL,
                          lambda s: k(z3.BoolVal(False), s),
                          lambda s: self.call_method(v, "__bool__", [], {}, s, after))

    ABSTRACT_TRUTH = "Condition.$truth"

    def dispatch_axioms(self, st, v, t, cn):
        """abstract truth = result of dynamic dispatch: for every modelled concrete subclass C,
        cls_of(x) <= C  implies  truth[x] == C.__bool__(x).
        Outside pure/quantified evaluation the fact is stated for the object at hand; inside (bound variables!) it is
        stated once per heap state for all objects, as a closed fact that the enclosing evaluation exports."""
        if st.heap_override is not None:
            snap_id = id(st.heap_override)
        else:
            snap_id = (st.epoch, st.heap.get(self.ABSTRACT_TRUTH).get_id() if st.heap.get(self.ABSTRACT_TRUTH) is not None else 0)
        universal = st.in_spec > 0
        key = ("dispatch", "all" if universal else v.t.get_id(), snap_id, len(st.wrote))
        if key in st.touched or getattr(self, "_in_dispatch", False):
            return
        st.touched = st.touched | {key}
        self._in_dispatch = True
        try:
            base_ci = self.class_info(cn)
            if universal:
                arr = st.harr(self.ABSTRACT_TRUTH, z3.ArraySort(RefS, z3.BoolSort()))
                x = fresh("dx", RefS)
                tx = z3.Select(arr, x)
            for name, lst in list(self.repo.classes_by_name.items()):
                for ci in lst:
                    if ci.name not in self.reg.models or ci is base_ci or base_ci not in self.repo.mro(ci):
                        continue
                    m = ci.methods.get("__bool__")
                    if m is None or self.is_abstract_method(m):
                        continue
                    obj = Val(REF(ci.name), x if universal else v.t)
                    try:
                        b = self.pure_bool(st, lambda s, kk, m=m, obj=obj: self.call_repo(
                            m, [obj], {}, s, lambda r, s2: self.bool_of(r, s2, lambda bb, s3: kk(mk_bool(bb), s3)), self_val=obj))
                    except Unsupported:
                        continue
                    if universal:
                        st.assume_fact(z3.ForAll([x], z3.Implies(z3.And(x != NULL, subclass(cls_of(x), cls_const(ci.name))), tx == b),
                                                 patterns=[tx]))
                    else:
                        st.assume(z3.Implies(subclass(cls_of(v.t), cls_const(ci.name)), t == b))
        finally:
            self._in_dispatch = False

    def is_abstract_method(self, m):
        body = [x for x in m.node.body if not (isinstance(x, ast.Expr) and isinstance(x.value, ast.Constant))]
        return len(body) == 1 and isinstance(body[0], ast.Raise) and "NotImplementedError" in ast.unparse(body[0])

    def find_repo_method(self, clsname, name):
        ci = self.class_info(clsname)
        if ci is None:
            return None
        return self.repo.find_method(ci, name)

    # ------------------------------------------------------------------ operators
    def ev_UnaryOp(self, e, st, k):
        if isinstance(e.op, ast.Not):
            return self.ev(e.operand, st, lambda v, s: self.bool_of(v, s, lambda b, s2: k(mk_bool(z3.Not(b)), s2)))

        def done(v, s):
            if isinstance(e.op, ast.USub):
                v2 = self.num(v)
                return k(Val(v2.ty, -v2.t), s)
            if isinstance(e.op, ast.UAdd):
                return k(self.num(v), s)
            if isinstance(e.op, ast.Invert):
                if isinstance(v, Val) and v.ty[0] == "ref" and v.ty[1] is not None:
                    return self.call_method(v, "__invert__", [], {}, s, k)
            raise Unsupported("unary %s" % ast.unparse(e))
        return self.ev(e.operand, st, done)

    def num(self, v):
        if isinstance(v, PyConst) and isinstance(v.v, (int, float)):
            return mk_real(v.v) if isinstance(v.v, float) else mk_int(v.v)
        if isinstance(v, Val) and v.ty[0] in ("int", "real"):
            return v
        if isinstance(v, Val) and v.ty[0] == "bool":
            return coerce(v, INT)
        raise Unsupported("number expected, got %r" % (v,))

    def ev_BoolOp(self, e, st, k):
        # value-returning and/or: only the boolean-typed use is supported precisely; otherwise fork
        vals = e.values

        def step(i, s):
            if i == len(vals) - 1:
                return self.ev(vals[i], s, k)

            def got(v, s2):
                if isinstance(e.op, ast.And):
                    return self.truth_val(v, s2, lambda s3: step(i + 1, s3), lambda s3: k(v, s3))
                return self.truth_val(v, s2, lambda s3: k(v, s3), lambda s3: step(i + 1, s3))
            return self.ev(vals[i], s, got)
        return step(0, st)

    def ev_BinOp(self, e, st, k):
        return self.ev(e.left, st, lambda a, s: self.ev(e.right, s, lambda b, s2: self.binop(e.op, a, b, s2, k, e)))

    def binop(self, op, a, b, st, k, e=None):
        if isinstance(a, PyConst) and isinstance(a.v, str) and isinstance(op, ast.Mod):
            return k(PyConst("<fmt>"), st)
        if isinstance(a, PyConst) and isinstance(a.v, str) and isinstance(op, ast.Add):
            return k(PyConst("<str>"), st)
        # list concatenation (spec expressions and tuples)
        if isinstance(op, ast.Add) and self.is_listlike(a) and self.is_listlike(b):
            la = self.as_lval(st, a)
            lb = self.as_lval(st, b, la.ety) if not isinstance(b, PyTup) or b.items else self.empty_list(la.ety)
            if isinstance(a, PyTup) and not a.items:
                return k(lb, st)
            return k(self.list_concat(la, lb), st)
        if isinstance(a, Val) and a.ty[0] == "ref" and a.ty[1] is not None and not is_num(a):
            name = {ast.Add: "__add__", ast.Sub: "__sub__", ast.BitAnd: "__and__", ast.BitOr: "__or__",
                    ast.Mult: "__mul__", ast.Lt: "__lt__"}.get(type(op))
            if name and self.find_repo_method(a.ty[1], name) is not None:
                return self.call_method(a, name, [b], {}, st, k)
        if isinstance(a, Singleton) and a.name == "time" and isinstance(op, ast.Add):
            return self.call_singleton_method(a, "__add__", [b], {}, st, k)
        if isinstance(a, Val) and a.ty[0] == "ref" and (a.ty[1] is None):
            # arithmetic on opaque values (user data): uninterpreted
            f = z3.Function("op_" + type(op).__name__, RefS, RefS, RefS)
            bb = coerce(b, ANY) if not is_num(b) else Val(ANY, z3.Function("box_real", z3.RealSort(), RefS)(to_real(b)))
            return k(Val(ANY, f(a.t, bb.t)), st)
        if self.is_opt(a) or self.is_opt(b):
            return self.unopt(a, st, lambda a1, s1: self.unopt(b, s1, lambda b1, s2: self.binop(op, a1, b1, s2, k, e)))
        a2, b2 = self.num(a), self.num(b)
        x, y, ty = num_pair(a2, b2)
        if isinstance(op, ast.Add):
            return k(Val(ty, x + y), st)
        if isinstance(op, ast.Sub):
            return k(Val(ty, x - y), st)
        if isinstance(op, ast.Mult):
            return k(Val(ty, x * y), st)
        if isinstance(op, ast.Div):
            xr, yr = to_real(a2), to_real(b2)
            return self.split(st, yr == 0,
                              lambda s: self.raise_exc(s, "ZeroDivisionError"),
                              lambda s: k(Val(REAL, xr / yr), s))
        if isinstance(op, ast.Pow) and isinstance(b, Val) and z3.is_int_value(b2.t):
            n = b2.t.as_long()
            if 0 <= n <= 4:
                r = z3.IntVal(1) if ty == INT else z3.RealVal(1)
                for _ in range(n):
                    r = r * x
                return k(Val(ty, r), st)
        raise Unsupported("binary operator %s" % (ast.unparse(e) if e is not None else op))

    def is_opt(self, v):
        return isinstance(v, Val) and v.ty[0] == "opt"

    def unopt(self, v, st, k):
        """use of an Optional value where a plain one is needed: None -> TypeError"""
        if not self.is_opt(v):
            return k(v, st)
        if st.frame.spec:
            return k(opt_val(v), st)
        return self.split(st, opt_is_none(v), lambda s: self.raise_exc(s, "TypeError", "None used as value"),
                          lambda s: k(opt_val(v), s), label="none?")

    def is_listlike(self, v):
        return isinstance(v, (Cell, FldList, LVal, PyTup, EmptyList))

    def list_concat(self, la, lb):
        i = z3.Int("i!cc")
        arr = z3.Lambda([i], z3.If(i < la.n, z3.Select(la.arr, i), z3.Select(lb.arr, i - la.n)))
        return LVal(la.ety, arr, la.n + lb.n)

    def ev_Compare(self, e, st, k):
        if len(e.ops) == 1:
            return self.ev(e.left, st, lambda a, s: self.ev(e.comparators[0], s,
                           lambda b, s2: self.compare(e.ops[0], a, b, s2, k)))

        # chained comparison a < b < c
        def step(i, left, acc, s):
            if i == len(e.ops):
                return k(mk_bool(z3.And(*acc)), s)
            return self.ev(e.comparators[i], s, lambda b, s2: self.compare(
                e.ops[i], left, b, s2, lambda r, s3: step(i + 1, b, acc + [self.as_bool_term(r)], s3)))
        return self.ev(e.left, st, lambda a, s: step(0, a, [], s))

    def as_bool_term(self, v):
        if isinstance(v, Val) and v.ty[0] == "bool":
            return v.t
        if isinstance(v, PyConst) and isinstance(v.v, bool):
            return z3.BoolVal(v.v)
        raise Unsupported("boolean expected: %r" % (v,))

    def compare(self, op, a, b, st, k):
        if isinstance(op, ast.Is):
            return k(mk_bool(self.identical(a, b, st)), st)
        if isinstance(op, ast.IsNot):
            return k(mk_bool(z3.Not(self.identical(a, b, st))), st)
        if isinstance(op, (ast.In, ast.NotIn)):
            def fin(r, s):
                t = self.as_bool_term(r)
                return k(mk_bool(z3.Not(t) if isinstance(op, ast.NotIn) else t), s)
            return self.contains(b, a, st, fin)
        if isinstance(op, (ast.Eq, ast.NotEq)):
            def fin(r, s):
                if isinstance(op, ast.NotEq):
                    if isinstance(r, Val) and r.ty[0] == "bool":
                        return k(mk_bool(z3.Not(r.t)), s)
                    raise Unsupported("!= on non-boolean result")
                return k(r, s)
            return self.equals(a, b, st, fin)
        # ordering
        name = {ast.Lt: "__lt__", ast.LtE: "__le__", ast.Gt: "__gt__", ast.GtE: "__ge__"}[type(op)]
        if isinstance(a, Singleton) and a.name == "time":
            return self.call_singleton_method(a, name, [b], {}, st, k)
        if isinstance(a, Val) and a.ty[0] == "ref" and a.ty[1] is not None and self.find_repo_method(a.ty[1], name):
            return self.call_method(a, name, [b], {}, st, k)
        if isinstance(a, Val) and a.ty[0] == "ref" and isinstance(b, Val) and b.ty[0] == "ref":
            f = z3.Function("user" + name, RefS, RefS, z3.BoolSort())
            self.assumptions_used.add("ordering of opaque user values is an uninterpreted pure relation")
            return k(mk_bool(f(a.t, b.t)), st)
        if isinstance(a, Val) and a.ty[0] == "tup" and isinstance(b, Val) and b.ty[0] == "tup":
            return k(mk_bool(self.tuple_order(op, a, b)), st)
        if self.is_opt(a) or self.is_opt(b):
            return self.unopt(a, st, lambda a1, s1: self.unopt(b, s1, lambda b1, s2: self.compare(op, a1, b1, s2, k)))
        a2, b2 = self.num(a), self.num(b)
        x, y, _ = num_pair(a2, b2)
        r = {ast.Lt: x < y, ast.LtE: x <= y, ast.Gt: x > y, ast.GtE: x >= y}[type(op)]
        return k(mk_bool(r), st)

    def tuple_order(self, op, a, b):
        """lexicographic order on tuples of numbers/bools"""
        n = len(a.ty[1])
        strict = isinstance(op, (ast.Lt, ast.Gt))
        less = isinstance(op, (ast.Lt, ast.LtE))
        res = z3.BoolVal(not strict)
        for i in reversed(range(n)):
            x, y = tup_get(a, i), tup_get(b, i)
            if x.ty[0] == "ref":
                raise Unsupported("ordering tuples with object components")
            xt, yt, _ = num_pair(coerce(x, INT) if x.ty[0] == "bool" else x, coerce(y, INT) if y.ty[0] == "bool" else y)
            lt = xt < yt if less else xt > yt
            res = z3.Or(lt, z3.And(xt == yt, res))
        return res

    def identical(self, a, b, st):
        if isinstance(a, PyConst) and isinstance(b, PyConst):
            return z3.BoolVal(a.v is b.v or (a.v == b.v and isinstance(a.v, (str, int, bool))))
        if isinstance(a, PyConst) and not isinstance(b, PyConst):
            a, b = b, a
        if isinstance(b, PyConst) and b.v is None:
            if isinstance(a, Val):
                if a.ty[0] in ("ref", "str"):
                    return a.t == NULL
                if a.ty[0] == "opt":
                    return opt_is_none(a)
                return z3.BoolVal(False)
            if isinstance(a, OptList):
                return a.none
            return z3.BoolVal(False)
        if isinstance(b, PyConst) and b.v is Ellipsis:
            if isinstance(a, Val) and a.ty[0] == "ref":
                return a.t == cls_const("Ellipsis")
            return z3.BoolVal(False)
        if isinstance(a, ClsVal) and isinstance(b, ClsVal):
            return z3.BoolVal(a.name == b.name)
        if isinstance(a, ClsVal):
            a = Val(ANY, cls_const(a.name))
        if isinstance(b, ClsVal):
            b = Val(ANY, cls_const(b.name))
        if isinstance(a, Singleton) or isinstance(b, Singleton):
            a = self.singleton_ref(a) if isinstance(a, Singleton) else a
            b = self.singleton_ref(b) if isinstance(b, Singleton) else b
        if isinstance(a, CoroVal):
            a = self.coro_ref(st, a)
        if isinstance(b, CoroVal):
            b = self.coro_ref(st, b)
        if isinstance(a, Val) and isinstance(b, Val):
            if a.ty[0] in ("ref", "str") and b.ty[0] in ("ref", "str"):
                return a.t == b.t
            if a.ty[0] == "bool" and b.ty[0] == "bool":
                return a.t == b.t
            if is_num(a) and is_num(b):
                # `is` on numbers is not meaningful; treat as value identity
                x, y, _ = num_pair(a, b)
                return x == y
            if a.ty[0] in ("ref", "str") or b.ty[0] in ("ref", "str"):
                return z3.BoolVal(False)
        raise Unsupported("identity of %r and %r" % (a, b))

    def singleton_ref(self, s):
        if s.name == "hibernate":
            return Val(REF("Hibernate"), HIBERNATE)
        if s.name == "state":
            return Val(REF("StateHandler"), STATE_OBJ)
        return Val(ANY, z3.Const("singleton!" + s.name, RefS))

    def equals(self, a, b, st, k):
        """python == (k receives a Val bool or an object for overloaded __eq__)"""
        if isinstance(a, Singleton) and a.name == "time":
            return self.call_singleton_method(a, "__eq__", [b], {}, st, k)
        if isinstance(a, Val) and a.ty[0] == "ref" and a.ty[1] is not None and \
                self.find_repo_method(a.ty[1], "__eq__") is not None:
            return self.call_method(a, "__eq__", [b], {}, st, k)
        if isinstance(a, PyConst) and isinstance(b, PyConst):
            return k(mk_bool(a.v == b.v), st)
        if self.is_listlike(a) and self.is_listlike(b):
            return k(mk_bool(self.list_eq(st, a, b)), st)
        if isinstance(a, (ClsVal, Singleton, CoroVal)) or isinstance(b, (ClsVal, Singleton, CoroVal)):
            return k(mk_bool(self.identical(a, b, st)), st)
        if isinstance(a, PyConst):
            a, b = b, a
        if isinstance(a, Val):
            if isinstance(b, PyConst) and b.v is None:
                return k(mk_bool(self.identical(a, b, st)), st)
            if a.ty[0] in ("int", "real", "bool") and (is_num(b) or isinstance(b, PyConst) or (isinstance(b, Val) and b.ty[0] == "bool")):
                if isinstance(b, Val) and b.ty[0] == "bool" and a.ty[0] == "bool":
                    return k(mk_bool(a.t == b.t), st)
                x, y, _ = num_pair(self.num(a), self.num(b))
                return k(mk_bool(x == y), st)
            if a.ty[0] == "opt":
                if isinstance(b, Val) and b.ty[0] == "opt":
                    bb = coerce(b, a.ty) if b.ty != a.ty else b
                    return k(mk_bool(a.t == bb.t), st)
                inner = opt_val(a)
                return self.equals(inner, b, st, lambda r, s: k(mk_bool(z3.And(z3.Not(opt_is_none(a)), self.as_bool_term(r))), s))
            if isinstance(b, Val) and b.ty[0] == "opt":
                return self.equals(b, a, st, k)
            if a.ty[0] in ("ref", "str"):
                if isinstance(b, Val) and b.ty[0] in ("ref", "str"):
                    return k(mk_bool(a.t == b.t), st)
                if isinstance(b, PyConst) and isinstance(b.v, str):
                    return k(mk_bool(a.t == str_const(b.v)), st)
                if is_num(b) and a.ty[1] is None:
                    g = z3.Function("box_real", z3.RealSort(), RefS)
                    return k(mk_bool(a.t == g(to_real(b))), st)
                return k(mk_bool(False), st)
            if a.ty[0] == "map" and isinstance(b, Val) and b.ty[0] == "map":
                return k(mk_bool(a.t == b.t), st)
            if a.ty[0] == "tup":
                if isinstance(b, PyTup):
                    b = tup_mk(a.ty, b.items)
                if isinstance(b, Val) and b.ty[0] == "tup":
                    if sort_of(a.ty) == sort_of(b.ty):
                        return k(mk_bool(a.t == b.t), st)
                    return k(mk_bool(False), st)
        if isinstance(a, PyTup) and isinstance(b, Val) and b.ty[0] == "tup":
            return self.equals(b, a, st, k)
        if isinstance(a, PyTup) and isinstance(b, PyTup):
            if len(a.items) != len(b.items):
                return k(mk_bool(False), st)

            def step(i, acc, s):
                if i == len(a.items):
                    return k(mk_bool(z3.And(*acc) if acc else z3.BoolVal(True)), s)
                return self.equals(a.items[i], b.items[i], s, lambda r, s2: step(i + 1, acc + [self.as_bool_term(r)], s2))
            return step(0, [], st)
        raise Unsupported("equality of %r and %r" % (a, b))

    def list_eq(self, st, a, b):
        if isinstance(a, (PyTup, EmptyList)) and not isinstance(b, (PyTup, EmptyList)):
            a, b = b, a
        if isinstance(a, (PyTup, EmptyList)):
            la = self.as_lval(st, a if isinstance(a, PyTup) else PyTup([]))
        else:
            la = self.get_list(st, a)
        if isinstance(b, EmptyList) or (isinstance(b, PyTup) and not b.items):
            return la.n == 0
        lb = self.as_lval(st, b, la.ety)
        i = z3.Int("i!eq")
        return z3.And(la.n == lb.n,
                      z3.ForAll([i], z3.Implies(z3.And(0 <= i, i < la.n), z3.Select(la.arr, i) == z3.Select(lb.arr, i))))

    def contains(self, container, item, st, k):
        if isinstance(container, PyTup):
            def step(i, acc, s):
                if i == len(container.items):
                    return k(mk_bool(z3.Or(*acc) if acc else z3.BoolVal(False)), s)
                return self.equals(item, container.items[i], s, lambda r, s2: step(i + 1, acc + [self.as_bool_term(r)], s2))
            return step(0, [], st)
        if isinstance(container, EmptyList):
            return k(mk_bool(False), st)
        if self.is_listlike(container):
            lv = self.get_list(st, container)
            it = coerce(item, lv.ety) if not isinstance(item, PyTup) else tup_mk(lv.ety, item.items)
            i = z3.Int("i!in")
            return k(mk_bool(z3.Exists([i], z3.And(0 <= i, i < lv.n, z3.Select(lv.arr, i) == it.t))), st)
        if isinstance(container, DictFld):
            return k(mk_bool(self.dict_has(st, container, item)), st)
        if type(container).__name__ == "WeakSetVal":
            return k(mk_bool(z3.Select(self.set_mem(st, container), coerce(item, container.ety or ANY).t)), st)
        if isinstance(container, Val) and container.ty[0] == "ref" and container.ty[1] is not None:
            return self.call_method(container, "__contains__", [item], {}, st, k)
        raise Unsupported("membership in %r" % (container,))

    # ------------------------------------------------------------------ attribute access
    def ev_Attribute(self, e, st, k):
        return self.ev(e.value, st, lambda base, s: self.getattr_val(base, e.attr, s, k))

    def getattr_val(self, base, attr, st, k):
        if isinstance(base, Singleton):
            return self.singleton_attr(base, attr, st, k)
        if isinstance(base, ModuleVal):
            mod = self.repo.module(base.name)
            if mod is None:
                return k(FuncVal("builtin", name=attr, extra=base.name), st)
            r = self.repo.resolve_global(mod, attr)
            if r is None:
                raise Unsupported("module attribute %s.%s" % (base.name, attr))
            return k(self.global_value(r, attr, st), st)
        if isinstance(base, SuperVal):
            ci = self.class_info(base.self_val.ty[1]) if isinstance(base.self_val, Val) else None
            dyn = ci or base.cls
            m = self.repo.find_method(dyn, attr, after=base.cls) if base.cls in self.repo.mro(dyn) else self.repo.find_method(base.cls, attr, after=base.cls)
            if m is None:
                # object.__init__ and friends
                return k(FuncVal("builtin", name="object." + attr, self_val=base.self_val), st)
            return k(FuncVal("repo", info=m, self_val=base.self_val, extra="direct"), st)
        if isinstance(base, ClsVal):
            return self.class_attr(base, attr, st, k)
        if isinstance(base, CoroVal):
            if attr in ("__await__", "close", "send", "throw", "__aiter__", "__anext__"):
                return k(FuncVal("bound_builtin", name="coro." + attr, self_val=base), st)
            if attr == "cr_frame":
                return k(CoroFrame(base), st)
            raise Unsupported("coroutine attribute " + attr)
        if isinstance(base, CoroFrame):
            if attr == "f_lasti":
                return self.coro_lasti(base.coro, st, k)
            raise Unsupported("frame attribute " + attr)
        if isinstance(base, (Cell, FldList, LVal, EmptyList, PyTup, DictFld, OptList)) or type(base).__name__ in ("DictEntryList", "WeakSetVal"):
            return k(FuncVal("bound_builtin", name="list." + attr, self_val=base), st)
        if isinstance(base, FuncVal) and attr in ("__name__", "__qualname__", "__module__", "__doc__"):
            return k(PyConst("<name>"), st)
        if isinstance(base, Val):
            if base.ty[0] == "tup":
                vm = self.value_model_for(base.ty)
                if vm is not None and attr in vm[1]:
                    return k(tup_get(base, vm[1].index(attr)), st)
                raise Unsupported("attribute %s of tuple" % attr)
            if base.ty[0] == "ref":
                return self.object_attr(base, attr, st, k)
        if isinstance(base, PyConst) and isinstance(base.v, str):
            return k(FuncVal("bound_builtin", name="str." + attr, self_val=base), st)
        raise Unsupported("attribute %s of %r" % (attr, base))

    def value_model_for(self, ty):
        for m in self.reg.models.values():
            if m.value and TUP(*m.fields.values()) == ty:
                return (m.name, list(m.fields))
        return None

    def object_attr(self, obj, attr, st, k):
        cn = obj.ty[1]
        if attr == "__class__":
            return k(self.type_of(obj), st)
        if cn == "type" and attr in ("__name__", "__qualname__", "__module__"):
            return k(PyConst("<name>"), st)
        if cn is None:
            if attr in ("close", "send", "throw", "__await__", "cr_frame"):
                f = z3.Function("hasattr_" + attr, RefS, z3.BoolSort())
                if st.frame.spec:
                    return k(FuncVal("bound_builtin", name="opaque." + attr, self_val=obj), st)
                return self.split(st, f(obj.t),
                                  lambda s: k(FuncVal("bound_builtin", name="opaque." + attr, self_val=obj), s),
                                  lambda s: self.raise_exc(s, "AttributeError", attr), label="hasattr(%s)" % attr)
        # coroutine-typed object (e.g. Task.__runner__)
        if cn == "coroutine" and attr in ("cr_frame",):
            return k(CoroFrame(obj), st)
        # data field?
        fd = None
        if cn in (None, "type", "object"):
            # statically unknown class: the attribute exists iff the dynamic class is (a subclass of) its declaring model
            owners = [m.name for m in self.reg.models.values() if attr in m.fields or (attr in m.ghost and st.frame.spec)]
            if len(owners) == 1 and attr not in ("close", "send", "throw", "__await__", "cr_frame"):
                own = owners[0]
                narrowed = Val(REF(own), obj.t)
                if st.frame.spec:
                    return self.object_attr(narrowed, attr, st, k)
                return self.split(st, z3.And(obj.t != NULL, subclass(cls_of(obj.t), cls_const(own))),
                                  lambda s: self.object_attr(narrowed, attr, s, k),
                                  lambda s: self.raise_exc(s, "AttributeError", attr), label="hasattr(%s)" % attr)
        try:
            fd = self.field_decl(cn, attr)
        except Unsupported:
            fd = None
        if fd is None and st.frame.spec and cn is not None:
            # clause refers to a field of a subclass (guarded by isinstance in the clause): narrow
            owners = [m.name for m in self.reg.models.values() if (attr in m.fields or attr in m.ghost)
                      and self.static_subclass_safe(m.name, cn)]
            if len(owners) == 1:
                return self.object_attr(Val(REF(owners[0]), obj.t), attr, st, k)
        if fd is not None:
            key, ty, ghost = fd
            if ghost and not st.frame.spec:
                raise Unsupported("ghost field %s read by code" % key)
            self.touch(st, obj)
            if ty[0] == "opt" and ty[1][0] == "list":
                return k(self.read_optlist(st, obj.t, key, ty[1][1]), st)
            return k(self.read_field(st, obj.t, key, ty), st)
        if ("abstract:%s.%s" % (cn, attr)) in self.reg.contracts:
            return k(FuncVal("abstract", name=attr, self_val=obj), st)
        ci = self.class_info(cn) if cn else None
        if ci is not None:
            m = self.repo.find_method(ci, attr)
            if m is not None:
                if m.is_property:
                    return self.call_repo(m, [obj], {}, st, k, self_val=obj)
                if m.is_staticmethod:
                    return k(FuncVal("repo", info=m), st)
                if m.is_classmethod:
                    return k(FuncVal("repo", info=m, self_val=self.type_of(obj)), st)
                ov = self.overrides_below(ci, attr)
                if ov and not st.frame.spec:
                    return k(FuncVal("virtual", info=m, self_val=obj, name=attr, extra=ov), st)
                return k(FuncVal("repo", info=m, self_val=obj), st)
            ca = self.repo.find_attr(ci, attr)
            if ca is not None:
                return self.eval_class_attr(ca[0], ca[1], st, k)
        raise Unsupported("attribute %r of object of class %s (no field model, method or class attribute)" % (attr, cn))

    def overrides_below(self, ci, name):
        """repo classes strictly below ci that define `name` themselves (most specific first)"""
        key = (ci.name, name)
        cache = self.__dict__.setdefault("_ov_cache", {})
        if key not in cache:
            out = []
            for lst in self.repo.classes_by_name.values():
                for c in lst:
                    if c is not ci and ci in self.repo.mro(c) and name in c.methods and c not in out:
                        out.append(c)
            out.sort(key=lambda c: -len(self.repo.mro(c)))
            cache[key] = out
        return cache[key]

    def eval_class_attr(self, ci, expr, st, k):
        fr = type(st.frame)("<class %s>" % ci.name, ci.module, defcls=ci)
        fr.locals = {}
        # class body names (e.g. PROMOTE_CONCURRENT = Scope.PROMOTE_CONCURRENT + (...))
        st.frames.append(fr)
        res = []
        try:
            self.ev(expr, st, lambda v, s: res.append(v) or [])
        finally:
            st.frames.pop()
        if len(res) != 1:
            raise Unsupported("class attribute expression")
        return k(res[0], st)

    def class_attr(self, cv, attr, st, k):
        if attr in ("__name__", "__qualname__", "__module__"):
            return k(PyConst(cv.name), st)
        ci = cv.info
        if ci is None and attr in ("__init__", "__new__", "__init_subclass__"):
            return k(FuncVal("builtin", name="object.__init__"), st)
        if ci is not None:
            m = self.repo.find_method(ci, attr)
            if m is not None:
                if m.is_classmethod:
                    return k(FuncVal("repo", info=m, self_val=cv), st)
                return k(FuncVal("repo", info=m, extra="direct"), st)
            ca = self.repo.find_attr(ci, attr)
            if ca is not None:
                return self.eval_class_attr(ca[0], ca[1], st, k)
            # metaclass-instance fields (Concurrent.specialisations ...)
            meta = self.metaclass_of(ci)
            if meta is not None:
                obj = Val(REF(meta), cls_const(cv.name))
                return self.object_attr(obj, attr, st, k)
        raise Unsupported("class attribute %s.%s" % (cv.name, attr))

    def metaclass_of(self, ci):
        for c in self.repo.mro(ci):
            for kw in c.node.keywords:
                if kw.arg == "metaclass":
                    return ast.unparse(kw.value)
        return None

    def singleton_attr(self, sg, attr, st, k):
        if sg.name == "state":
            if attr == "loop":
                return k(Val(REF("Loop"), LOOP), st)
            if attr == "is_active":
                return k(mk_bool(True), st)
            if attr == "assign":
                return k(FuncVal("bound_builtin", name="state.assign", self_val=sg), st)
        if sg.name == "time":
            if attr == "now":
                return self.object_attr(Val(REF("Loop"), LOOP), "time", st, k)
            return k(FuncVal("bound_builtin", name="time." + attr, self_val=sg), st)
        if sg.name == "hibernate" and attr in ("__await__", "__iter__"):
            return k(FuncVal("bound_builtin", name="hibernate.__await__", self_val=sg), st)
        raise Unsupported("attribute %s of singleton %s" % (attr, sg.name))

    def call_singleton_method(self, sg, name, args, kwargs, st, k):
        ci = self.repo.cls({"time": "Time", "eternity": "Eternity", "instant": "Instant"}[sg.name])
        m = self.repo.find_method(ci, name)
        if m is None:
            raise Unsupported("method %s of %s" % (name, sg.name))
        return self.call_repo(m, [sg] + list(args), kwargs, st, k, self_val=sg)

    def type_of(self, v):
        if isinstance(v, Val) and v.ty[0] == "ref":
            return Val(REF("type"), cls_of(v.t))
        if isinstance(v, PyConst) and v.v is None:
            return ClsVal("NoneType")
        if isinstance(v, PyTup):
            return ClsVal("tuple")
        if isinstance(v, Val) and v.ty[0] == "tup":
            return ClsVal("tuple")
        raise Unsupported("type() of %r" % (v,))

    def touch(self, st, obj):
        """first field access to an object on this segment: assume its class invariants (lazily)"""
        pass

    # ------------------------------------------------------------------ subscripts
    def ev_Subscript(self, e, st, k):
        if isinstance(e.slice, ast.Slice):
            sl = e.slice

            def with_base(base, s):
                def lo_done(lo, s2):
                    def hi_done(hi, s3):
                        return k(self.list_slice(s3, base, lo, hi), s3)
                    if sl.upper is None:
                        return hi_done(None, s2)
                    return self.ev(sl.upper, s2, hi_done)
                if sl.step is not None:
                    raise Unsupported("slice step")
                if sl.lower is None:
                    return lo_done(None, s)
                return self.ev(sl.lower, s, lo_done)
            return self.ev(e.value, st, with_base)
        return self.ev(e.value, st, lambda base, s: self.ev(e.slice, s, lambda idx, s2: self.getitem(base, idx, s2, k)))

    def list_slice(self, st, base, lo, hi):
        if isinstance(base, PyTup):
            if (lo is None or isinstance(lo, Val) and z3.is_int_value(lo.t)) and (hi is None or isinstance(hi, Val) and z3.is_int_value(hi.t)):
                a = lo.t.as_long() if lo is not None else None
                b = hi.t.as_long() if hi is not None else None
                return PyTup(base.items[a:b], base.kind)
        lv = self.as_lval(st, base) if not isinstance(base, EmptyList) else None
        if lv is None:
            return base
        lo_t = z3.IntVal(0) if lo is None else self.num(lo).t
        hi_t = lv.n if hi is None else self.num(hi).t
        # python clamps; negative indices count from the end
        lo_t = z3.If(lo_t < 0, z3.If(lv.n + lo_t < 0, 0, lv.n + lo_t), z3.If(lo_t > lv.n, lv.n, lo_t))
        hi_t = z3.If(hi_t < 0, z3.If(lv.n + hi_t < 0, 0, lv.n + hi_t), z3.If(hi_t > lv.n, lv.n, hi_t))
        n = z3.If(hi_t > lo_t, hi_t - lo_t, 0)
        i = z3.Int("i!sl")
        arr = z3.Lambda([i], z3.Select(lv.arr, i + lo_t))
        out = LVal(lv.ety, arr, z3.simplify(n), lv.kind)
        if st.frame.spec:
            return out
        return self.new_cell(st, out, lv.kind) if isinstance(base, (Cell, FldList)) else out

    def getitem(self, base, idx, st, k):
        if self.is_opt(base):
            return self.unopt(base, st, lambda b2, s2: self.getitem(b2, idx, s2, k))
        if isinstance(base, PyTup):
            if isinstance(idx, Val) and z3.is_int_value(z3.simplify(idx.t)):
                return k(base.items[z3.simplify(idx.t).as_long()], st)
            raise Unsupported("symbolic index into literal tuple")
        if isinstance(base, Val) and base.ty[0] == "tup":
            if isinstance(idx, Val) and z3.is_int_value(z3.simplify(idx.t)):
                i = z3.simplify(idx.t).as_long()
                if i < 0:
                    i += len(base.ty[1])
                return k(tup_get(base, i), st)
            raise Unsupported("symbolic index into tuple")
        if self.is_listlike(base):
            if isinstance(base, EmptyList):
                return self.raise_exc(st, "IndexError")
            lv = self.get_list(st, base)
            i = self.num(idx).t
            ii = z3.If(i < 0, lv.n + i, i)
            ok = z3.And(ii >= 0, ii < lv.n)
            if st.frame.spec:
                return k(Val(lv.ety, z3.Select(lv.arr, ii)), st)
            return self.split(st, ok,
                              lambda s: k(Val(lv.ety, z3.Select(lv.arr, z3.simplify(ii))), s),
                              lambda s: self.raise_exc(s, "IndexError"))
        if isinstance(base, DictFld):
            return self.dict_get(st, base, idx, k)
        if isinstance(base, Val) and base.ty[0] == "map":
            return k(Val(base.ty[2], z3.Select(base.t, coerce(idx, base.ty[1]).t)), st)
        if isinstance(base, ClsVal) or (isinstance(base, Val) and base.ty[0] == "ref" and base.ty[1] is not None):
            if isinstance(base, ClsVal):
                meta = self.metaclass_of(base.info) if base.info else None
                if meta is None:
                    return k(base, st)   # Generic[T] style subscription
                obj = Val(REF(meta), cls_const(base.name))
                return self.call_method(obj, "__getitem__", [idx], {}, st, k)
            return self.call_method(base, "__getitem__", [idx], {}, st, k)
        raise Unsupported("subscript of %r" % (base,))

    # ------------------------------------------------------------------ comprehension-like
    def ev_GeneratorExp(self, e, st, k):
        return k(GenExp(e, st.frame), st)

    def ev_ListComp(self, e, st, k):
        return self.comp_to_list(GenExp(e, st.frame), st, k)

    def ev_Starred(self, e, st, k):
        raise Unsupported("starred expression outside call/tuple")

    def ev_Await(self, e, st, k):
        return self.ev(e.value, st, lambda v, s: self.await_value(v, s, k))

    def ev_YieldFrom(self, e, st, k):
        return self.ev(e.value, st, lambda v, s: self.yield_from_value(v, s, k))

    def ev_Yield(self, e, st, k):
        return self.do_yield(e, st, k)

    def ev_NamedExpr(self, e, st, k):
        def done(v, s):
            s.frame.locals[e.target.id] = v
            return k(v, s)
        return self.ev(e.value, st, done)


class EmptyList:
    """`[]` / deque() literal whose element type is not known yet"""
    __slots__ = ("kind",)

    def __init__(self, kind="list"):
        self.kind = kind


class OptList:
    """optional list field value"""
    __slots__ = ("none", "lst")

    def __init__(self, none, lst):
        self.none = none
        self.lst = lst


class GenExp:
    __slots__ = ("node", "frame")

    def __init__(self, node, frame):
        self.node = node
        self.frame = frame


class StarItem:
    __slots__ = ("v",)

    def __init__(self, v):
        self.v = v


class CoroFrame:
    __slots__ = ("coro",)

    def __init__(self, coro):
        self.coro = coro
