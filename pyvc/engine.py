"""The assembled symbolic executor."""
import z3
from .core import *   # noqa
from .base import EngineBase, Outcome, N_, DictLit, DictFld
from .expr import ExprMixin, EmptyList, OptList
from .call import CallMixin
from .stmt import StmtMixin
from .flow import FlowMixin
from .contracts import ContractMixin
from .containers import ContainerMixin


class Engine(ContainerMixin, ContractMixin, FlowMixin, StmtMixin, CallMixin, ExprMixin, EngineBase):
    def __init__(self, repo, reg, facts=None):
        EngineBase.__init__(self, repo, reg)
        self.interp_facts = facts or {}
        self.entry_params = {}
        self.witnesses = {}
        self.used_contracts = set()
        self.no_inv_assume = False
        self.no_inv_check = False
        self.cur_scope = None
        self.init_self = None
        self.me_const = z3.Const("me", RefS)
        # make sure the class constants the kernel theory talks about exist
        for n in ("Interrupt", "GeneratorExit", "BaseException", "Exception", "NoneType", "Ellipsis", "coroutine", "object"):
            cls_const(n)
