"""Index of the real source text under /repo/usim (parsed, never imported).

Everything the prover knows about the code comes from here: module ASTs, classes with bases and
methods, functions (including nested ones), and the import tables used to resolve global names.
"""
import ast
import hashlib
import os

REPO_ROOT = os.environ.get("PYVC_REPO", "/repo")

BUILTIN_EXC = {
    # name: base
    "BaseException": None,
    "Exception": "BaseException",
    "GeneratorExit": "BaseException",
    "KeyboardInterrupt": "BaseException",
    "SystemExit": "BaseException",
    "StopIteration": "Exception",
    "StopAsyncIteration": "Exception",
    "ArithmeticError": "Exception",
    "ZeroDivisionError": "ArithmeticError",
    "AssertionError": "Exception",
    "AttributeError": "Exception",
    "LookupError": "Exception",
    "IndexError": "LookupError",
    "KeyError": "LookupError",
    "NameError": "Exception",
    "OSError": "Exception",
    "EnvironmentError": "Exception",
    "RuntimeError": "Exception",
    "NotImplementedError": "RuntimeError",
    "RecursionError": "RuntimeError",
    "TypeError": "Exception",
    "ValueError": "Exception",
    "object": None,
}


class FuncInfo:
    def __init__(self, node, module, qualname, cls=None, parent=None):
        self.node = node
        self.module = module          # ModuleInfo
        self.qualname = qualname      # e.g. 'Lock.__aenter__' or 'Task.__init__.payload_wrapper'
        self.cls = cls                # ClassInfo or None
        self.parent = parent          # enclosing FuncInfo for closures
        self.is_async = isinstance(node, ast.AsyncFunctionDef)
        self.decorators = [ast.unparse(d) for d in node.decorator_list]
        self.has_yield = _has_yield(node)
        self.nested = {}

    @property
    def fqn(self):
        return self.module.name + "." + self.qualname

    @property
    def is_property(self):
        return "property" in self.decorators

    @property
    def is_contextmanager(self):
        return any(d.split(".")[-1] == "contextmanager" for d in self.decorators)

    @property
    def is_classmethod(self):
        return "classmethod" in self.decorators

    @property
    def is_staticmethod(self):
        return "staticmethod" in self.decorators

    @property
    def is_asyncgen(self):
        return self.is_async and self.has_yield

    @property
    def is_generator(self):
        return (not self.is_async) and self.has_yield

    def ast_hash(self):
        return hashlib.sha256(ast.dump(self.node).encode()).hexdigest()[:16]

    def __repr__(self):
        return "<Func %s>" % self.fqn


def _has_yield(fn):
    """yield / yield from directly in this function (not in nested defs/lambdas)"""
    stack = list(fn.body)
    while stack:
        n = stack.pop()
        if isinstance(n, (ast.Yield, ast.YieldFrom)):
            return True
        if isinstance(n, (ast.FunctionDef, ast.AsyncFunctionDef, ast.Lambda, ast.ClassDef)):
            continue
        stack.extend(ast.iter_child_nodes(n))
    return False


class ClassInfo:
    def __init__(self, node, module, name):
        self.node = node
        self.module = module
        self.name = name          # unique key (short name; 'py.X' for usim.py classes that shadow a core name)
        self.pyname = name        # name in the source
        self.base_exprs = [b for b in node.bases]
        self.methods = {}
        self.attrs = {}     # class-level simple assignments: name -> ast expr
        self.debug_methods = {}   # defined under `if __debug__:`

    @property
    def fqn(self):
        return self.module.name + "." + self.name

    def __repr__(self):
        return "<Class %s>" % self.fqn


class ModuleInfo:
    def __init__(self, name, path, src):
        self.name = name
        self.path = path
        self.src = src
        self.sha256 = hashlib.sha256(src.encode()).hexdigest()
        self.tree = ast.parse(src)
        self.imports = {}    # local name -> (module, name|None)
        self.classes = {}
        self.functions = {}
        self.assigns = {}    # module-level simple assignments name -> ast expr
        self.is_pkg = os.path.basename(path) == "__init__.py"


class RepoIndex:
    def __init__(self, root=None, package="usim"):
        self.root = root or REPO_ROOT
        self.package = package
        self.modules = {}
        self.classes_by_name = {}    # short name -> [ClassInfo]
        self._load()

    # ------------------------------------------------------------------ loading
    def _load(self):
        base = os.path.join(self.root, self.package)
        for dirpath, dirnames, filenames in os.walk(base):
            dirnames[:] = [d for d in dirnames if d != "__pycache__"]
            for fn in sorted(filenames):
                if not fn.endswith(".py"):
                    continue
                path = os.path.join(dirpath, fn)
                rel = os.path.relpath(path, self.root)[:-3].replace(os.sep, ".")
                if rel.endswith(".__init__"):
                    rel = rel[: -len(".__init__")]
                with open(path) as fh:
                    src = fh.read()
                mod = ModuleInfo(rel, path, src)
                self.modules[rel] = mod
        for mod in self.modules.values():
            self._index_module(mod)
        # unique class keys: classes of the SimPy layer that shadow a core class get a 'py.' prefix
        for short, lst in list(self.classes_by_name.items()):
            if len(lst) > 1:
                keep = [c for c in lst if not c.module.name.startswith(self.package + ".py")]
                for c in lst:
                    if c not in keep or len(keep) != 1:
                        c.name = "py." + c.pyname if c.module.name.startswith(self.package + ".py") else c.module.name + "." + c.pyname
                        self.classes_by_name.setdefault(c.name, []).append(c)
                self.classes_by_name[short] = [c for c in lst if c.name == short]

    def _index_module(self, mod):
        def resolve_from(level, module):
            if level == 0:
                return module
            parts = mod.name.split(".")
            if not mod.is_pkg:
                parts = parts[:-1]
            if level > 1:
                parts = parts[: len(parts) - (level - 1)]
            if module:
                parts = parts + module.split(".")
            return ".".join(parts)

        def visit_body(body, debug=False):
            for node in body:
                if isinstance(node, ast.ImportFrom):
                    src = resolve_from(node.level, node.module)
                    for a in node.names:
                        mod.imports[a.asname or a.name] = (src, a.name)
                elif isinstance(node, ast.Import):
                    for a in node.names:
                        mod.imports[a.asname or a.name.split(".")[0]] = (a.name, None)
                elif isinstance(node, ast.ClassDef):
                    ci = ClassInfo(node, mod, node.name)
                    mod.classes[node.name] = ci
                    self.classes_by_name.setdefault(node.name, []).append(ci)
                    self._index_class(ci, node.body)
                elif isinstance(node, (ast.FunctionDef, ast.AsyncFunctionDef)):
                    fi = FuncInfo(node, mod, node.name)
                    mod.functions[node.name] = fi
                    self._index_nested(fi)
                elif isinstance(node, ast.Assign):
                    for t in node.targets:
                        if isinstance(t, ast.Name):
                            mod.assigns[t.id] = node.value
                elif isinstance(node, ast.AnnAssign) and node.value is not None:
                    if isinstance(node.target, ast.Name):
                        mod.assigns[node.target.id] = node.value
                elif isinstance(node, ast.If):
                    visit_body(node.body)
                    visit_body(node.orelse)

        visit_body(mod.tree.body)

    def _index_class(self, ci, body, debug=False):
        for node in body:
            if isinstance(node, (ast.FunctionDef, ast.AsyncFunctionDef)):
                fi = FuncInfo(node, ci.module, ci.pyname + "." + node.name, cls=ci)
                # property setters etc. are not used in usim
                if debug:
                    ci.debug_methods[node.name] = fi
                else:
                    ci.methods[node.name] = fi
                self._index_nested(fi)
            elif isinstance(node, ast.Assign):
                for t in node.targets:
                    if isinstance(t, ast.Name):
                        ci.attrs[t.id] = node.value
            elif isinstance(node, ast.AnnAssign) and node.value is not None:
                if isinstance(node.target, ast.Name):
                    ci.attrs[node.target.id] = node.value
            elif isinstance(node, ast.If) and ast.unparse(node.test) == "__debug__":
                self._index_class(ci, node.body, debug=True)

    def _index_nested(self, fi):
        def walk(nodes):
            for n in nodes:
                if isinstance(n, (ast.FunctionDef, ast.AsyncFunctionDef)):
                    sub = FuncInfo(n, fi.module, fi.qualname + "." + n.name, cls=None, parent=fi)
                    fi.nested[n.name] = sub
                    self._index_nested(sub)
                elif isinstance(n, (ast.ClassDef, ast.Lambda)):
                    continue
                else:
                    walk(list(ast.iter_child_nodes(n)))
        walk(fi.node.body)

    # ------------------------------------------------------------------ lookup
    def module(self, name):
        return self.modules.get(name)

    def func(self, fqn):
        """'usim._primitives.locks.Lock.__aenter__' -> FuncInfo (or None)"""
        parts = fqn.split(".")
        for i in range(len(parts) - 1, 0, -1):
            mname = ".".join(parts[:i])
            if mname in self.modules:
                mod = self.modules[mname]
                rest = parts[i:]
                cur = None
                if rest[0] in mod.classes:
                    ci = mod.classes[rest[0]]
                    if len(rest) == 1:
                        return None
                    cur = ci.methods.get(rest[1]) or ci.debug_methods.get(rest[1])
                    rest = rest[2:]
                elif rest[0] in mod.functions:
                    cur = mod.functions[rest[0]]
                    rest = rest[1:]
                for r in rest:
                    if cur is None:
                        return None
                    cur = cur.nested.get(r)
                return cur
        return None

    def cls(self, name):
        """class by fully qualified or unique short name"""
        if "." in name:
            mname, _, cname = name.rpartition(".")
            mod = self.modules.get(mname)
            if mod and cname in mod.classes:
                return mod.classes[cname]
            return None
        cands = self.classes_by_name.get(name, [])
        if len(cands) == 1:
            return cands[0]
        if len(cands) > 1:
            raise KeyError("ambiguous class name %r: %s" % (name, cands))
        return None

    def resolve_global(self, mod, name, _depth=0):
        """Resolve a global name used inside `mod`.
        -> ('class', ClassInfo) | ('func', FuncInfo) | ('assign', ModuleInfo, expr) |
           ('module', name) | ('external', module, name) | None"""
        if _depth > 8:
            return None
        if name in mod.classes:
            return ("class", mod.classes[name])
        if name in mod.functions:
            return ("func", mod.functions[name])
        if name in mod.assigns:
            return ("assign", mod, mod.assigns[name])
        if name in mod.imports:
            src, orig = mod.imports[name]
            if orig is None:
                return ("module", src)
            if src in self.modules:
                return self.resolve_global(self.modules[src], orig, _depth + 1)
            sub = src + "." + orig
            if sub in self.modules:
                return ("module", sub)
            return ("external", src, orig)
        return None

    def bases(self, ci):
        """resolved direct bases: list of ClassInfo or builtin-name strings (Generic[...] etc dropped)"""
        out = []
        for b in ci.base_exprs:
            e = b
            if isinstance(e, ast.Subscript):
                e = e.value
            if isinstance(e, ast.Name):
                r = self.resolve_global(ci.module, e.id)
                if r and r[0] == "class":
                    out.append(r[1])
                elif e.id in BUILTIN_EXC:
                    out.append(e.id)
                elif r and r[0] == "external":
                    out.append("ext:" + r[1] + "." + r[2])
                else:
                    out.append("ext:" + e.id)
            elif isinstance(e, ast.Attribute):
                out.append("ext:" + ast.unparse(e))
            else:
                out.append("ext:" + ast.unparse(e))
        return out

    def mro(self, ci):
        """simple linearisation (usim uses single inheritance among its own classes)"""
        out = [ci]
        for b in self.bases(ci):
            if isinstance(b, ClassInfo):
                for x in self.mro(b):
                    if x not in out:
                        out.append(x)
        return out

    def builtin_bases(self, ci):
        """names of builtin (exception) base classes reachable from ci"""
        out = []
        for c in self.mro(ci):
            for b in self.bases(c):
                if isinstance(b, str) and not b.startswith("ext:"):
                    n = b
                    while n is not None and n not in out:
                        out.append(n)
                        n = BUILTIN_EXC.get(n)
        return out

    def find_method(self, ci, name, after=None):
        """method lookup along the MRO; `after` = start after this class (super())"""
        mro = self.mro(ci)
        if after is not None:
            mro = mro[mro.index(after) + 1:]
        for c in mro:
            if name in c.methods:
                return c.methods[name]
        return None

    def find_attr(self, ci, name):
        for c in self.mro(ci):
            if name in c.attrs:
                return c, c.attrs[name]
        return None

    def is_subclass(self, a, b):
        """a, b: ClassInfo or builtin name"""
        if isinstance(a, str):
            if isinstance(b, ClassInfo):
                return False
            n = a
            while n is not None:
                if n == b:
                    return True
                n = BUILTIN_EXC.get(n)
            return False
        if isinstance(b, ClassInfo):
            return b in self.mro(a)
        return b in self.builtin_bases(a) or b == "object"

    def all_functions(self):
        for mod in self.modules.values():
            for fi in mod.functions.values():
                yield from self._with_nested(fi)
            for ci in mod.classes.values():
                for fi in list(ci.methods.values()) + list(ci.debug_methods.values()):
                    yield from self._with_nested(fi)

    def _with_nested(self, fi):
        yield fi
        for s in fi.nested.values():
            yield from self._with_nested(s)

    def source_hashes(self):
        return {m.name: m.sha256 for m in self.modules.values()}

    def structure_hash(self):
        """hash of everything outside function bodies: module lists, imports, class headers, bases, slots,
        class/module level assignments, function signatures and decorators (bodies are tracked per function)"""
        import copy

        class Strip(ast.NodeTransformer):
            def _strip(self, node):
                node = copy.copy(node)
                node.body = [ast.Pass()]
                return node

            def visit_FunctionDef(self, node):
                return self._strip(node)

            def visit_AsyncFunctionDef(self, node):
                n = self._strip(node)
                return n

        h = hashlib.sha256()
        for name in sorted(self.modules):
            m = self.modules[name]
            tree = Strip().visit(copy.deepcopy(m.tree))
            h.update(name.encode())
            h.update(ast.dump(tree).encode())
            # generator-ness / async-generator-ness is part of the signature
            for node in ast.walk(m.tree):
                if isinstance(node, (ast.FunctionDef, ast.AsyncFunctionDef)):
                    h.update(("%s:%s;" % (node.name, _has_yield(node))).encode())
        return h.hexdigest()
