"""Types, values, z3 context shared by the symbolic executor and the spec evaluator."""
import z3

# --------------------------------------------------------------------------- types
INT = ("int",)
REAL = ("real",)
BOOL = ("bool",)
STR = ("str",)
ANY = ("ref", None)


def REF(cls=None):
    return ("ref", cls)


def TUP(*ts):
    return ("tup", tuple(ts))


def OPT(t):
    if t[0] == "ref":
        return ("ref", t[1], "null")
    return ("opt", t)


def MAP(k, v):
    return ("map", k, v)


def LIST(t):
    return ("list", t)


def DICT(k, v):
    return ("dict", k, v)


def SET(elem):
    """(weak) set of object references stored in a field: membership predicate; iteration order unspecified"""
    return ("set", elem)


def PYTUP(*tys):
    """result type of a function returning a python tuple with non-scalar components, e.g. (key, list)"""
    return ("pytup", list(tys))


def SORTED_DICT(k, v):
    """sortedcontainers.SortedDict: a dict whose popitem(0) yields the smallest key"""
    return ("dict", k, v, "sorted")


class Unsupported(Exception):
    """the code (or a contract) left the supported subset -> exit 2, never a violation"""


class SpecError(Exception):
    """a contract refers to something that does not exist (spec drift) -> exit 2"""


RefS = z3.DeclareSort("Ref")
NULL = z3.Const("null", RefS)

_sort_cache = {}
_tup_cache = {}
_opt_cache = {}


def ty_name(ty):
    k = ty[0]
    if k == "ref":
        return "ref"
    if k == "tup":
        return "T" + "_".join(ty_name(t) for t in ty[1]) + "E"
    if k == "opt":
        return "O" + ty_name(ty[1])
    if k == "map":
        return "M" + ty_name(ty[1]) + "_" + ty_name(ty[2])
    if k == "list":
        return "L" + ty_name(ty[1])
    return k


def tup_dt(ty):
    key = ty_name(ty)
    if key not in _tup_cache:
        dt = z3.Datatype(key)
        dt.declare("mk_" + key, *[("f%d_%s" % (i, key), sort_of(t)) for i, t in enumerate(ty[1])])
        _tup_cache[key] = dt.create()
    return _tup_cache[key]


def opt_dt(ty):
    key = ty_name(ty)
    if key not in _opt_cache:
        dt = z3.Datatype(key)
        dt.declare("none_" + key)
        dt.declare("some_" + key, ("val_" + key, sort_of(ty[1])))
        _opt_cache[key] = dt.create()
    return _opt_cache[key]


def sort_of(ty):
    k = ty[0]
    if k == "int":
        return z3.IntSort()
    if k == "real":
        return z3.RealSort()
    if k == "bool":
        return z3.BoolSort()
    if k in ("ref", "str"):
        return RefS
    if k == "tup":
        return tup_dt(ty)
    if k == "opt":
        return opt_dt(ty)
    if k == "map":
        return z3.ArraySort(sort_of(ty[1]), sort_of(ty[2]))
    raise Unsupported("no scalar sort for type %r" % (ty,))


def norm_ty(ty):
    """canonical form (ref types compare equal regardless of class for sort purposes)"""
    return ty


# --------------------------------------------------------------------------- values
class Val:
    """a scalar symbolic value: z3 term + static type"""
    __slots__ = ("ty", "t")

    def __init__(self, ty, t):
        self.ty = ty
        self.t = t

    def __repr__(self):
        return "Val(%s, %s)" % (ty_name(self.ty) if self.ty[0] != "ref" else "ref:%s" % self.ty[1], self.t)


class LVal:
    """a list *value* (immutable snapshot): element type, z3 array Int->elem, z3 length"""
    __slots__ = ("ety", "arr", "n", "kind")

    def __init__(self, ety, arr, n, kind="list"):
        self.ety = ety
        self.arr = arr
        self.n = n
        self.kind = kind   # list | tuple | deque

    def __repr__(self):
        return "LVal(%s)" % (ty_name(self.ety),)


class Cell:
    """reference to a local mutable list (content in state.cells)"""
    __slots__ = ("cid", "ety", "kind")

    def __init__(self, cid, ety, kind="list"):
        self.cid = cid
        self.ety = ety
        self.kind = kind


class FldList:
    """reference to a list stored by value in a field of an object"""
    __slots__ = ("obj", "key", "ety")

    def __init__(self, obj, key, ety):
        self.obj = obj      # z3 Ref term
        self.key = key      # heap key 'Class.field'
        self.ety = ety


class PyTup:
    """python-level tuple/list literal of arbitrary values"""
    __slots__ = ("items", "kind")

    def __init__(self, items, kind="tuple"):
        self.items = list(items)
        self.kind = kind

    def __repr__(self):
        return "PyTup(%r)" % (self.items,)


class PyConst:
    """a concrete Python constant with no symbolic content (str, Ellipsis, ...)"""
    __slots__ = ("v",)

    def __init__(self, v):
        self.v = v

    def __repr__(self):
        return "PyConst(%r)" % (self.v,)


NONE = PyConst(None)


class ClsVal:
    """a concrete, statically known class"""
    __slots__ = ("name", "info")

    def __init__(self, name, info=None):
        self.name = name    # short name
        self.info = info    # ClassInfo or None for builtins

    def __repr__(self):
        return "ClsVal(%s)" % self.name


class FuncVal:
    __slots__ = ("kind", "info", "self_val", "name", "extra")

    def __init__(self, kind, info=None, self_val=None, name=None, extra=None):
        self.kind = kind        # repo | builtin | lambda | bound_builtin
        self.info = info        # FuncInfo / ast.Lambda
        self.self_val = self_val
        self.name = name
        self.extra = extra      # closure env for lambdas / nested defs; defining class for super

    def __repr__(self):
        return "FuncVal(%s,%s)" % (self.kind, self.name or (self.info and getattr(self.info, 'qualname', '')))


class CoroVal:
    """result of calling an async def / generator function: not started yet"""
    __slots__ = ("info", "args", "closure", "ref", "kind", "defcls", "direct", "started")

    def __init__(self, info, args, closure=None, kind="coro", defcls=None):
        self.info = info
        self.args = args       # dict param -> value
        self.closure = closure
        self.ref = None
        self.kind = kind       # coro | gen | asyncgen
        self.defcls = defcls
        self.direct = False
        self.started = False


class Singleton:
    __slots__ = ("name",)

    def __init__(self, name):
        self.name = name

    def __repr__(self):
        return "Singleton(%s)" % self.name


class SuperVal:
    __slots__ = ("self_val", "cls")

    def __init__(self, self_val, cls):
        self.self_val = self_val
        self.cls = cls


class ModuleVal:
    __slots__ = ("name",)

    def __init__(self, name):
        self.name = name


# --------------------------------------------------------------------------- helpers
def mk_int(i):
    return Val(INT, z3.IntVal(i))


def mk_real(x):
    return Val(REAL, z3.RealVal(x))


def mk_bool(b):
    if isinstance(b, bool):
        return Val(BOOL, z3.BoolVal(b))
    return Val(BOOL, b)


def is_num(v):
    return isinstance(v, Val) and v.ty[0] in ("int", "real")


def to_real(v):
    if v.ty[0] == "real":
        return v.t
    if v.ty[0] == "int":
        return z3.ToReal(v.t)
    if v.ty[0] == "bool":
        return z3.If(v.t, z3.RealVal(1), z3.RealVal(0))
    raise Unsupported("not a number: %r" % (v,))


def num_pair(a, b):
    """coerce two numeric values to a common sort"""
    if a.ty[0] == "int" and b.ty[0] == "int":
        return a.t, b.t, INT
    return to_real(a), to_real(b), REAL


def tup_mk(ty, items):
    dt = tup_dt(ty)
    return Val(ty, dt.constructor(0)(*[coerce(x, t).t for x, t in zip(items, ty[1])]))


def tup_get(v, i):
    dt = tup_dt(v.ty)
    return Val(v.ty[1][i], z3.simplify(dt.accessor(0, i)(v.t)))


def opt_none(ty):
    dt = opt_dt(ty)
    return Val(ty, dt.constructor(0)())


def opt_some(ty, v):
    dt = opt_dt(ty)
    return Val(ty, dt.constructor(1)(coerce(v, ty[1]).t))


def opt_is_none(v):
    dt = opt_dt(v.ty)
    return z3.simplify(dt.recognizer(0)(v.t))


def opt_val(v):
    dt = opt_dt(v.ty)
    return Val(v.ty[1], z3.simplify(dt.accessor(1, 0)(v.t)))


def coerce(v, ty):
    """convert a value to the static type `ty` (raises Unsupported when impossible)"""
    if isinstance(v, PyConst):
        if v.v is None:
            if ty[0] == "ref" or ty[0] == "str":
                return Val(ty, NULL)
            if ty[0] == "opt":
                return opt_none(ty)
            raise Unsupported("None assigned to non-optional %r" % (ty,))
        if isinstance(v.v, bool):
            v = mk_bool(v.v)
        elif isinstance(v.v, int):
            v = mk_int(v.v)
        elif isinstance(v.v, float):
            v = mk_real(v.v)
        elif isinstance(v.v, str) and ty[0] in ("ref", "str"):
            return Val(ty, str_const(v.v))
        else:
            raise Unsupported("cannot coerce constant %r to %r" % (v.v, ty))
    if isinstance(v, ClsVal) and ty[0] == "ref":
        return Val(ty, cls_const(v.name))
    if isinstance(v, PyTup) and ty[0] == "tup" and len(v.items) == len(ty[1]):
        return tup_mk(ty, v.items)
    if isinstance(v, PyTup) and ty[0] == "opt" and ty[1][0] == "tup":
        return opt_some(ty, tup_mk(ty[1], v.items))
    if isinstance(v, PyTup) and ty[0] == "ref":
        # a tuple stored where an arbitrary object is expected: opaque, but a function of its components
        comps = []
        for it in v.items:
            try:
                comps.append(coerce(it, ANY).t)
            except Unsupported:
                comps.append(fresh("tupcomp", RefS))
        f = z3.Function("pytuple%d" % len(comps), *([RefS] * len(comps) + [RefS]))
        return Val(ty, f(*comps) if comps else z3.Const("pytuple0", RefS))
    if isinstance(v, LVal) and ty[0] == "ref":
        return Val(ty, fresh("pylist", RefS))
    if isinstance(v, FuncVal) and ty[0] == "ref" and ty[1] is None and v.kind in ("repo", "virtual"):
        # a (bound) function stored where an arbitrary object is expected (a callback list): an opaque object; calling it
        # later is outside the model
        nm = v.name or getattr(getattr(v.info, "node", None), "name", None)
        if v.self_val is not None and isinstance(v.self_val, Val) and nm:
            # bound method: a function of the method's name and the receiver (so that specifications can name it)
            bm = z3.Function("boundmethod", RefS, RefS, RefS)
            return Val(ty, bm(str_const(nm), v.self_val.t))
        return Val(ty, fresh("pyfunc", RefS))
    if not isinstance(v, Val):
        raise Unsupported("cannot coerce %r to %r" % (v, ty))
    if v.ty == ty:
        return v
    k, vk = ty[0], v.ty[0]
    if k == "ref" and vk in ("int", "real", "bool"):
        g = z3.Function("box_real", z3.RealSort(), RefS)
        return Val(ty, g(to_real(v)))
    if k == "ref" and vk in ("ref", "str"):
        # static class narrowing/widening is free
        return Val(ty if ty[1] is not None else v.ty, v.t)
    if k == "str" and vk in ("ref", "str"):
        return Val(ty, v.t)
    if k == "real" and vk in ("int", "bool"):
        return Val(REAL, to_real(v))
    if k == "int" and vk == "bool":
        return Val(INT, z3.If(v.t, z3.IntVal(1), z3.IntVal(0)))
    if k == "opt":
        if vk == "opt":
            if v.ty[1][0] == ty[1][0]:
                return Val(ty, v.t)
            # opt int -> opt real
            inner = coerce(opt_val(v), ty[1])
            return Val(ty, z3.If(opt_is_none(v), opt_none(ty).t, opt_some(ty, inner).t))
        return opt_some(ty, coerce(v, ty[1]))
    if vk == "opt" and k == v.ty[1][0]:
        # caller has established non-None (checked by the evaluator)
        return coerce(opt_val(v), ty)
    if k == "tup" and vk == "tup" and len(ty[1]) == len(v.ty[1]):
        return tup_mk(ty, [tup_get(v, i) for i in range(len(ty[1]))])
    raise Unsupported("cannot coerce %r to %r" % (v, ty))


_cls_consts = {}
_str_consts = {}


def cls_const(name):
    if name not in _cls_consts:
        _cls_consts[name] = z3.Const("cls!" + name, RefS)
    return _cls_consts[name]


def str_const(s):
    if s not in _str_consts:
        _str_consts[s] = z3.Const("str!%d" % len(_str_consts), RefS)
    return _str_consts[s]


cls_of = z3.Function("cls_of", RefS, RefS)
subclass = z3.Function("subclass", RefS, RefS, z3.BoolSort())
birth = z3.Function("birth", RefS, z3.IntSort())
# interpretation of `bool(x)` for opaque user objects
truthy = z3.Function("truthy", RefS, z3.BoolSort())

_fresh_counter = [0]


def fresh(prefix, sort):
    _fresh_counter[0] += 1
    return z3.Const("%s!%d" % (prefix, _fresh_counter[0]), sort)


def fresh_val(prefix, ty):
    return Val(ty, fresh(prefix, sort_of(ty)))


def reset_fresh():
    _fresh_counter[0] = 0
