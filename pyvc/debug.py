import sys, z3
from pyvc.driver import *
from pyvc import solve
def dbg(fqn, pat, mods=None):
    reg=load_registry(mods)
    r=verify_one(fqn, solve_it=False)
    eng=r["engine"]
    print(r["status"], r["error"])
    for ob in eng.obligations:
        if pat in ob.name:
            s=z3.Solver(); s.set("timeout",10000)
            for a in eng.class_axioms(): s.add(a)
            for c in ob.pc: s.add(c)
            s.add(z3.Not(ob.goal))
            res=s.check()
            print(ob.name, res)
            print("GOAL", ob.goal)
            if res==z3.sat:
                m=s.model()
                # evaluate all select subterms of the goal
                seen={}
                def walk(t):
                    if t.get_id() in seen: return
                    seen[t.get_id()]=1
                    if z3.is_app(t):
                        for ch in t.children(): walk(ch)
                        if t.num_args()>0 and not z3.is_quantifier(t) and t.sort().kind() in (z3.Z3_BOOL_SORT, z3.Z3_INT_SORT, z3.Z3_UNINTERPRETED_SORT, z3.Z3_REAL_SORT) :
                            try:
                                print("   ", str(t)[:150].replace("\n"," "), "=", m.eval(t))
                            except Exception as e: pass
                walk(ob.goal)
            break
if __name__=="__main__":
    dbg(sys.argv[1], sys.argv[2], sys.argv[3].split(",") if len(sys.argv)>3 else None)
