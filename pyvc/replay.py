"""Replay of counterexamples on the real code (subprocess, /venv/bin/python, hard timeout)."""
import json
import os
import subprocess
import sys

VERIF = os.path.dirname(os.path.dirname(os.path.abspath(__file__)))
PY = "/venv/bin/python"


def try_replay(prop, rec, ob):
    """look for a scenario template that covers this obligation; run it against /repo"""
    d = os.path.join(VERIF, "scenarios")
    idx = os.path.join(d, "index.json")
    if not os.path.exists(idx):
        return None
    with open(idx) as fh:
        index = json.load(fh)
    key = ob["name"].rsplit("/", 1)[0]
    cands = []
    for ent in index:
        if ent.get("function") == rec["function"] or ent.get("obligation") == key:
            if prop in ent.get("properties", [prop]):
                cands.append(ent)
    for ent in cands:
        script = os.path.join(d, ent["script"])
        res = run_script(script)
        if res["exit"] == 1:
            return {"status": "reproduced", "path": os.path.relpath(script, VERIF), "output": res["out"][-2000:]}
    # property-level scenario library: concrete programs with the expected behaviour asserted, all of which pass on the
    # committed tree; one that fails now is a failing input for this property on the real code
    lib = os.path.join(d, "library", prop)
    tried = 0
    if os.path.isdir(lib):
        for name in sorted(os.listdir(lib)):
            if not name.endswith(".py"):
                continue
            tried += 1
            script = os.path.join(lib, name)
            res = run_script(script, timeout=30)
            if res["exit"] == 1:
                return {"status": "reproduced", "path": os.path.relpath(script, VERIF), "output": res["out"][-2000:]}
    return {"status": "not-reproduced", "scenarios_tried": tried + len(cands)} if (cands or tried) else None


def run_script(script, timeout=60):
    env = dict(os.environ)
    env["PYTHONPATH"] = os.environ.get("PYVC_REPO", "/repo")
    try:
        p = subprocess.run(["timeout", str(timeout), PY, script], capture_output=True, text=True, env=env, timeout=timeout + 10)
        return {"exit": p.returncode, "out": p.stdout + p.stderr}
    except subprocess.TimeoutExpired:
        return {"exit": 124, "out": "timeout"}


def replay_file(prop, path):
    full = path if os.path.isabs(path) else os.path.join(VERIF, path)
    if full.endswith(".py"):
        res = run_script(full)
        print(res["out"][-4000:])
        if res["exit"] == 1:
            print("VIOLATION property=%s replay=%s" % (prop, path))
            return 1
        return 0 if res["exit"] == 0 else 2
    with open(full) as fh:
        doc = json.load(fh)
    print(json.dumps(doc, indent=1)[:6000])
    # re-run the obligation's function and report its current verdict
    from . import runner
    recs = runner.verify_functions([doc["function"]], jobs=1)
    key = doc["obligation"].rsplit("/", 1)[0]
    bad = [o for r in recs for o in r["obligations"] if o["name"].rsplit("/", 1)[0] == key and o["verdict"] != "discharged"]
    for o in bad:
        print("still failing:", o["name"], o["verdict"])
    if bad:
        print("VIOLATION property=%s replay=%s no-failing-input-found" % (prop, path))
        return 1
    print("obligation is discharged on the current tree")
    return 0
