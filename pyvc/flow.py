"""Loops, with-statements, coroutine semantics (await / yield from / suspension / async generators)."""
import ast
import z3
from .core import *   # noqa
from .base import Outcome, N_, DictLit, DictFld, LOOP, HIBERNATE
from .expr import EmptyList, OptList, GenExp
from .call import FuncRange, StarList, TakeWhile
from .repo import BUILTIN_EXC, FuncInfo
from .state import Frame, Snap


class AnextExpr(ast.expr):
    """`await it.__anext__()` of an async generator under contract (synthetic node of a desugared `async for`)"""
    _fields = ()


def assigned_names(nodes):
    out = set()
    for n in nodes:
        for x in ast.walk(n):
            if isinstance(x, ast.Name) and isinstance(x.ctx, (ast.Store, ast.Del)):
                out.add(x.id)
            elif isinstance(x, (ast.FunctionDef, ast.AsyncFunctionDef)):
                out.add(x.name)
    return out


def may_suspend(nodes):
    for n in nodes:
        for x in ast.walk(n):
            if isinstance(x, (ast.Await, ast.YieldFrom, ast.Yield, ast.AsyncFor, ast.AsyncWith, AnextExpr)):
                return True
    return False


class FlowMixin:
    # ================================================================== loops
    def loop_label(self, st, stmt, kind):
        if getattr(stmt, "_label_override", None):
            return stmt._label_override
        return "%s#%d" % (kind, self.rel_line(st, getattr(stmt, "_comp_of", stmt)))

    def loop_invs(self, st, label):
        fn = st.frames[-1].func
        if isinstance(fn, FuncInfo):
            c = self.reg.contracts.get(fn.fqn)
            if c is not None:
                return c.loop_invariants.get(label, [])
        return []

    def exec_loop(self, stmt, st, kind="while", for_ctx=None):
        """while loops (and symbolic for loops via for_ctx): peel one iteration, then one generic iteration"""
        label = self.loop_label(st, stmt, kind)
        invs = self.loop_invs(st, label)
        # loops declared "consistent": every class invariant in scope holds at the loop head (checked at entry and at
        # every back edge, assumed for the generic iteration) -- needed when the body calls functions that rely on them
        fn0 = st.frames[-1].func
        c0 = self.reg.contracts.get(fn0.fqn) if isinstance(fn0, FuncInfo) else None
        consistent = c0 is not None and label in getattr(c0, "loop_consistent", ()) and not may_suspend(stmt.body)
        if consistent:
            self.assert_invariants(st, where=label + ".entry")
        results = []
        st.labels["loop_entry"] = st.snap()
        st0 = st.copy()

        # invariant must hold on entry
        self.check_loop_invs(st, invs, label, "entry", for_ctx, idx=z3.IntVal(0))
        back = []
        self.loop_iteration(stmt, st, results, back, for_ctx, idx=z3.IntVal(0), tag=label + ".first")
        if not back:
            return [(o, s) for (o, s, _g) in results]
        for b in back:
            self.check_loop_invs(b[0], invs, label, "preserved(first)", for_ctx, idx=b[1])
            if may_suspend(stmt.body) or consistent:
                self.assert_invariants(b[0], where=label + ".backedge")
        # ---- generic iteration
        written = set()
        for b, _ in back:
            written |= (b.wrote - st0.wrote)
        for _round in range(4):
            g = st0.copy()
            g.note(label + ".generic")
            # monotone suspension counter: >= entry (+1 when every first-iteration back edge suspended)
            d = 1
            for b, _ in back:
                if not self.entails(b, b.susp >= st0.susp + 1):
                    d = 0
                    break
            sg = fresh("susp", z3.IntSort())
            g.assume(sg >= st0.susp + d)
            g.susp = sg
            if any(not b.yields.eq(st0.yields) for b, _ in back):
                yg = fresh("yields", z3.IntSort())
                g.assume(yg >= st0.yields)
                g.yields = yg
            # suspensions since the start of the current async-generator step: only `>= 0` survives the back edge
            dg = fresh("stepsusp", z3.IntSort())
            g.assume(dg >= 0)
            g.step_base = sg - dg
            g.step_snap = None
            if g.tick_time is not None:
                g.tick_time = fresh("tick", z3.RealSort())
                g.step_time = fresh("stept", z3.RealSort())
            self.havoc_locals(g, assigned_names(stmt.body) | (assigned_names([stmt.target]) if for_ctx else set()), back[0][0])
            # local lists mutated in place by the body (append/pop/... leave no assignment behind)
            for b, _bi in back:
                for cid, lv in b.cells.items():
                    if cid in st0.cells and lv is not st0.cells[cid] and g.cells.get(cid) is st0.cells[cid]:
                        nl = LVal(lv.ety, fresh("lc_" + cid, z3.ArraySort(z3.IntSort(), sort_of(lv.ety))), fresh("lcn_" + cid, z3.IntSort()), lv.kind)
                        g.assume(nl.n >= 0)
                        g.cells[cid] = nl
            if may_suspend(stmt.body):
                t_before = self.loop_field(g, "time")
                self.havoc_heap(g, full=True, reason=label)
                g.assume(self.loop_field(g, "time") >= t_before)
                g.inv_base = g.snap()
                g.last_susp = g.inv_base
                self.assume_invariants_eagerly(g)
            else:
                self.havoc_keys(g, written, proto=back[0][0])
                if consistent:
                    g.inv_base = g.snap()
                    g.inv_over = {}
                    g.inv_hist = ()
                    g.touched = frozenset()
                    self.assume_invariants_eagerly(g)
            idx = None
            if for_ctx is not None:
                idx = fresh("it", z3.IntSort())
                g.assume(idx >= 1)
                g.assume(idx <= for_ctx.n)
            for inv in invs:
                g.assume(self.eval_clause(inv, g, extra=self.loop_env(for_ctx, idx, g)))
            back2 = []
            self.loop_iteration(stmt, g, results, back2, for_ctx, idx=idx, tag=label + ".generic")
            new_written = set()
            for b, bi in back2:
                self.check_loop_invs(b, invs, label, "preserved", for_ctx, idx=bi)
                if may_suspend(stmt.body) or consistent:
                    self.assert_invariants(b, where=label + ".backedge")
                new_written |= (b.wrote - st0.wrote)
            if may_suspend(stmt.body) or new_written <= written:
                break
            written |= new_written
            # rerun with a larger havoc set: drop results of the previous generic round
            results[:] = [r for r in results if not r[2]]
        else:
            raise Unsupported("loop write-set did not stabilise")
        return [(o, s) for (o, s, _g) in results]

    def loop_env(self, for_ctx, idx, st=None):
        env = {}
        if st is not None and st.frames:
            # loop invariants speak about the *current* values of locals (also of reassigned parameters)
            env.update(st.frames[0].locals)
        if for_ctx is not None and idx is not None:
            env["_i"] = Val(INT, idx)
            env["_iter"] = for_ctx        # the sequence being iterated (snapshot taken at loop entry)
        return env

    def check_loop_invs(self, st, invs, label, phase, for_ctx, idx):
        for n, inv in enumerate(invs):
            goal = self.eval_clause(inv, st, extra=self.loop_env(for_ctx, idx, st))
            self.emit(st, "loop_invariant", "%s[%d].%s" % (label, n, phase), inv, goal)

    def loop_iteration(self, stmt, st, results, back, for_ctx, idx, tag):
        """one iteration from state st. exits -> results (3-tuples: outcome, state, is_generic); back edges -> back"""
        is_generic = tag.endswith(".generic")
        st.labels["iter_snap"] = st.snap()

        def add(o, s):
            results.append((o, s, is_generic))

        def body(s, cur_idx):
            for o, s2 in self.exec_block(stmt.body, s):
                if o.kind in ("N", "C"):
                    back.append((s2, (cur_idx + 1) if cur_idx is not None else None))
                elif o.kind == "B":
                    add(N_, s2)
                else:
                    add(o, s2)
            return []

        def leave(s):
            if stmt.orelse:
                for o, s2 in self.exec_block(stmt.orelse, s):
                    add(o, s2)
            else:
                add(N_, s)
            return []

        if for_ctx is None:
            outs = self.truth(stmt.test, st, lambda s: body(s, None), leave, label=tag)
            for o, s in outs:    # exceptions raised by the test itself
                add(o, s)
        else:
            lv = for_ctx
            cond = idx < lv.n

            def enter(s):
                elem = Val(lv.ety, z3.Select(lv.arr, idx))
                self.assign_target(stmt.target, elem, s)
                return body(s, idx)
            outs = self.split(st, cond, enter, leave, label=tag)
            for o, s in outs:
                add(o, s)

    def entails(self, st, goal):
        s = z3.Solver()
        s.set("rlimit", 1800000)
        s.set("timeout", 60000)   # safety net only; the budget is the rlimit above
        for a in self.class_axioms():
            s.add(a)
        for a in st.hs.axioms:
            s.add(a)
        for c in st.pc:
            s.add(c)
        s.add(z3.Not(goal))
        return s.check() == z3.unsat

    def havoc_locals(self, st, names, proto):
        """give loop-assigned locals fresh values of the type they have at the back edge"""
        fr = st.frame
        pfr = proto.frame
        for n in sorted(names):
            v = pfr.locals.get(n, fr.locals.get(n))
            if v is None:
                continue
            if isinstance(v, Val):
                fr.locals[n] = fresh_val("lv_" + n, v.ty)
            elif isinstance(v, Cell):
                lv = proto.cells[v.cid]
                nl = LVal(lv.ety, fresh("la_" + n, z3.ArraySort(z3.IntSort(), sort_of(lv.ety))), fresh("ln_" + n, z3.IntSort()), lv.kind)
                st.assume(nl.n >= 0)
                st.cells[v.cid] = nl
                fr.locals[n] = v
            elif isinstance(v, LVal):
                nl = LVal(v.ety, fresh("la_" + n, z3.ArraySort(z3.IntSort(), sort_of(v.ety))), fresh("ln_" + n, z3.IntSort()), v.kind)
                st.assume(nl.n >= 0)
                fr.locals[n] = nl
            elif isinstance(v, PyConst):
                if n in fr.locals and isinstance(fr.locals[n], PyConst) and fr.locals[n].v == v.v:
                    continue
                if isinstance(v.v, bool):
                    fr.locals[n] = fresh_val("lv_" + n, BOOL)
                elif isinstance(v.v, (int, float)):
                    fr.locals[n] = fresh_val("lv_" + n, REAL)
                else:
                    fr.locals[n] = v
            else:
                if n in fr.locals and fr.locals[n] is v:
                    continue
                raise Unsupported("loop-carried local %s of kind %s" % (n, type(v).__name__))

    def sort_of_heap_key(self, key):
        """sort of the heap array behind 'Class.field[#component]' from the model declarations"""
        cn, _, f = key.partition(".")
        base, _, suf = f.partition("#")
        try:
            fd = self.field_decl(cn, base)
        except Unsupported:
            fd = None
        if fd is None:
            return None
        ty = fd[1]
        if ty[0] == "opt" and ty[1][0] == "list":
            if suf == "none":
                return z3.ArraySort(RefS, z3.BoolSort())
            ty = ty[1]
        if ty[0] == "list":
            if suf == "a":
                return self.key_sort(key, ty)
            if suf == "n":
                return z3.ArraySort(RefS, z3.IntSort())
            return None
        if ty[0] == "set":
            return self.set_sort() if suf == "mem" else None
        if ty[0] == "dict":
            for hk, srt in self.dict_heap_keys(cn + "." + base, ty):
                if hk == key:
                    return srt
            return None
        if suf:
            return None
        return self.key_sort(key, ty)

    def havoc_keys(self, st, keys, proto=None):
        for key in sorted(keys):
            cur = st.heap.get(key)
            if cur is None and proto is not None:
                cur = proto.heap.get(key)
            if cur is None:
                srt = self.sort_of_heap_key(key)
                if srt is None:
                    raise Unsupported("cannot havoc heap key %s (sort unknown)" % key)
                cur = st.harr(key, srt)
            st.heap[key] = fresh("Hh!" + key, cur.sort())
            for ax in self.born_before(st.heap[key], st.clock, key):
                st.assume(ax)
            if key.endswith("#n"):
                x = z3.Const("x!hk", RefS)
                st.assume(z3.ForAll([x], z3.Select(st.heap[key], x) >= 0))

    # ---- for
    def exec_for(self, stmt, st):
        def with_iter(it, s):
            if isinstance(it, PyTup):
                return self.unrolled_for(stmt, it.items, s)
            if isinstance(it, EmptyList):
                return self.exec_block(stmt.orelse, s) if stmt.orelse else [(N_, s)]
            if isinstance(it, KwItems):
                return self.unrolled_for(stmt, it.items, s)
            if isinstance(it, OptList):
                it = it.lst
            if isinstance(it, FldList):
                # iteration over a live list: take the snapshot semantics only if the body does not write it
                lv = self.get_list(s, it)
                return self.exec_loop(stmt, s, kind="for", for_ctx=lv)
            if self.is_listlike(it):
                lv = self.get_list(s, it)
                return self.exec_loop(stmt, s, kind="for", for_ctx=lv)
            if isinstance(it, DictValues):
                # summarised loop shape:  for x in d.values(): x.append(e)
                body = [b for b in stmt.body if not (isinstance(b, ast.Expr) and isinstance(b.value, ast.Constant))]
                if (len(body) == 1 and isinstance(body[0], ast.Expr) and isinstance(body[0].value, ast.Call)
                        and isinstance(body[0].value.func, ast.Attribute) and body[0].value.func.attr == "append"
                        and isinstance(body[0].value.func.value, ast.Name) and isinstance(stmt.target, ast.Name)
                        and body[0].value.func.value.id == stmt.target.id and len(body[0].value.args) == 1 and not stmt.orelse):
                    self.inlined.add("loop shape `for x in d.values(): x.append(e)` summarised by the engine (pointwise append)")

                    def with_item(v, s2):
                        self.dict_append_all(s2, it.d, v)
                        return [(N_, s2)]
                    return self.ev(body[0].value.args[0], s, with_item)
                raise Unsupported("for over dict values with a body other than `x.append(e)`")
            raise Unsupported("for over %r" % (it,))
        return self.ev(stmt.iter, st, with_iter)

    def unrolled_for(self, stmt, items, st):
        states = [st]
        done = []
        for it in items:
            nxt = []
            for s in states:
                self.assign_target(stmt.target, it, s)
                for o, s2 in self.exec_block(stmt.body, s):
                    if o.kind in ("N", "C"):
                        nxt.append(s2)
                    elif o.kind == "B":
                        done.append((N_, s2))
                    else:
                        done.append((o, s2))
            states = nxt
        for s in states:
            if stmt.orelse:
                done.extend(self.exec_block(stmt.orelse, s))
            else:
                done.append((N_, s))
        return done

    def exec_async_for(self, stmt, st):
        """async for target in SRC: body   with SRC an object whose __aiter__ is an async generator under contract
        (or asyncstdlib.islice(SRC, n)): every iteration consumes one step of that generator BY ITS CONTRACT
        (requires; at least step_suspends.min suspensions; step_ensures about the item), the loop ends when the
        generator ends (its `ensures`) -- or, for islice, after n items without asking for another one."""
        def with_src(v, s):
            limit = None
            if isinstance(v, IsliceVal):
                v, limit = v.src, v.limit
            if not (isinstance(v, Val) and v.ty[0] == "ref" and v.ty[1]):
                raise Unsupported("async for over %r" % (v,))
            m = self.find_repo_method(v.ty[1], "__aiter__")
            c = self.reg.contracts.get(m.fqn) if m is not None else None
            if m is None or not m.is_asyncgen or c is None or not c.step_ensures:
                raise Unsupported("async for over %s: __aiter__ is not an async generator under contract" % v.ty[1])
            stepc = self.step_contract(c)
            uid = self.rel_line(s, stmt)
            nname, lname = "_afor_n", "_afor_limit"
            src = ("%s = 0\nwhile True:\n" % nname)
            if limit is not None:
                src += "    if %s >= %s:\n        break\n" % (nname, lname)
            src += "    try:\n        __afor_item__ = __ANEXT__\n    except StopAsyncIteration:\n        break\n    %s += 1\n    pass\n" % nname
            tree = ast.parse(src)
            init, loop = tree.body
            # item assignment -> the loop's own target; placeholder -> synthetic node
            tr = [n for n in loop.body if isinstance(n, ast.Try)][0]
            node = AnextExpr()
            node.contract, node.info, node.recv = stepc, m, v
            tr.body[0] = ast.Assign(targets=[stmt.target], value=node)
            loop.body = [x for x in loop.body if not isinstance(x, ast.Pass)] + list(stmt.body)
            loop.orelse = []
            for n in ast.walk(loop):
                if not hasattr(n, "lineno"):
                    ast.copy_location(n, stmt)
            ast.fix_missing_locations(loop)
            loop._comp_of = stmt
            if nname in s.frame.locals:
                raise Unsupported("nested async for")
            s.frame.locals[nname] = mk_int(0)
            if limit is not None:
                s.frame.locals[lname] = limit
            outs = self.exec_loop(loop, s, kind="afor")
            res = []
            for o, s2 in outs:
                s2.frame.locals.pop(nname, None)
                s2.frame.locals.pop(lname, None)
                if o.kind == "N" and stmt.orelse:
                    res.extend(self.exec_block(stmt.orelse, s2))
                else:
                    res.append((o, s2))
            return res
        return self.ev(stmt.iter, st, with_src)

    def step_contract(self, c):
        """contract of ONE step (`__anext__`) of an async generator, derived from the generator's contract"""
        from .dsl import Contract
        cache = self.__dict__.setdefault("_step_contracts", {})
        if c.fqn not in cache:
            raises = dict(c.raises)
            raises["StopAsyncIteration"] = dict(ensures=list(c.ensures))      # the generator ran to its end
            sc = Contract(c.fqn + "#step", params=dict(c.params), returns=ANY, requires=list(c.requires),
                          ensures=list(c.step_ensures), raises=raises,
                          suspends=c.step_suspends if c.step_suspends is not None else (0, None),
                          on_signal=list(c.on_signal), on_close=c.on_close, on_exit=list(c.on_exit),
                          inv_scope=c.inv_scope, props=list(c.props),
                          note="one step of the async generator, as specified by step_ensures/step_suspends of " + c.fqn)
            cache[c.fqn] = sc
        return cache[c.fqn]

    def ev_AnextExpr(self, e, st, k):
        c, info, recv = e.contract, e.info, e.recv
        self.used_contracts.add(c.fqn.split("#")[0])
        return self.apply_contract(c, info, {"self": recv}, st, k)

    # ================================================================== with
    def exec_with(self, stmt, st, is_async):
        if len(stmt.items) != 1:
            # nested withs
            inner = type(stmt)(items=stmt.items[1:], body=stmt.body)
            ast.copy_location(inner, stmt)
            outer = type(stmt)(items=stmt.items[:1], body=[inner])
            ast.copy_location(outer, stmt)
            return self.exec_with(outer, st, is_async)
        item = stmt.items[0]

        def with_cm(cm, s):
            if is_async:
                return self.async_with(stmt, item, cm, s)
            if isinstance(cm, CoroVal) and cm.kind == "gen" and cm.info.is_contextmanager:
                return self.inline_contextmanager(stmt, item, cm, s)
            if isinstance(cm, Val) and cm.ty[0] == "ref" and cm.ty[1] and \
                    ("abstract:%s.__exit__" % cm.ty[1]) in self.reg.contracts:
                return self.object_with(stmt, item, cm, s)
            raise Unsupported("with over %r" % (cm,))
        return self.ev(item.context_expr, st, with_cm)

    def object_with(self, stmt, item, cm, st):
        """`with obj:` for an object whose __enter__/__exit__ are given by abstract contracts (e.g. contextlib.ExitStack):
        __enter__ yields the object itself; __exit__(exc) answers whether the exception is swallowed"""
        if item.optional_vars is not None:
            self.assign_target(item.optional_vars, cm, st)
        outs = self.exec_block(stmt.body, st)
        res = []
        for o, s2 in outs:
            if o.kind == "X":
                exc = o.val
                res.extend(self.call_method(cm, "__exit__", [exc], {}, s2, lambda r, s3, exc=exc: self.truth_val(
                    r, s3, lambda s4: [(N_, s4)], lambda s4: [(Outcome("X", exc), s4)])))
            else:
                res.extend(self.call_method(cm, "__exit__", [NONE], {}, s2, lambda r, s3, o=o: [(o, s3)]))
        return res

    def inline_contextmanager(self, stmt, item, cm, st):
        info = cm.info
        c = self.reg.contracts.get(info.fqn)
        if c is not None and not c.inline:
            self.inlined.add(info.fqn + " (contextmanager, inlined at with-statements; its contract is checked separately)")
        caller_depth = len(st.frames)
        rec = CMRecord(stmt, item, caller_depth)
        st.cm_stack = st.cm_stack + (rec,)
        fr = Frame(info, info.module, self.defining_class(info), closure=cm.closure)
        fr.locals = dict(cm.args)
        st.frames.append(fr)
        st.depth += 1
        st.note("with " + info.qualname)
        outs = self.exec_block(info.node.body, st)
        res = []
        for o, s in outs:
            del s.frames[caller_depth:]
            s.depth -= 1
            recs = [r for r in s.cm_stack if r.uid == rec.uid]
            s.cm_stack = tuple(r for r in s.cm_stack if r.uid != rec.uid)
            pend = s.labels.pop("cm_pending_%d" % rec.uid, None)
            yielded = s.labels.pop("cm_yielded_%d" % rec.uid, False)
            if o.kind in ("N", "R"):
                if not yielded:
                    raise Unsupported("contextmanager %s finished without yielding" % info.fqn)
                if pend is not None and pend.kind != "X":
                    res.append((pend, s))
                else:
                    res.append((N_, s))     # normal end, or exception swallowed by the manager
            elif o.kind == "X":
                res.append((o, s))
            else:
                raise Unsupported("outcome %s from contextmanager" % o.kind)
        return res

    def do_yield(self, e, st, k):
        """`yield` inside (a) an inlined @contextmanager: run the with-body here; (b) an async generator step"""
        fn = st.frame.func
        if isinstance(fn, FuncInfo) and fn.is_contextmanager and st.cm_stack:
            rec = st.cm_stack[-1]
            if st.labels.get("cm_yielded_%d" % rec.uid):
                raise Unsupported("contextmanager yields twice")

            def with_val(v, s):
                saved = [f for f in s.frames[rec.depth:]]
                del s.frames[rec.depth:]
                s.labels["cm_yielded_%d" % rec.uid] = True
                if rec.item.optional_vars is not None:
                    self.assign_target(rec.item.optional_vars, v, s)
                outs = self.exec_block(rec.stmt.body, s)
                res = []
                for o, s2 in outs:
                    s2.frames.extend(f.copy() for f in saved)
                    if o.kind == "N":
                        res.extend(k(NONE, s2))
                    elif o.kind == "X":
                        s2.labels["cm_pending_%d" % rec.uid] = o
                        res.append((o, s2))     # raised at the yield inside the generator
                    else:
                        s2.labels["cm_pending_%d" % rec.uid] = o
                        res.extend(k(NONE, s2))
                return res
            if e.value is None:
                return with_val(NONE, st)
            return self.ev(e.value, st, with_val)
        if isinstance(fn, FuncInfo) and fn.is_asyncgen:
            if e.value is None:
                return self.asyncgen_yield(NONE, st, k)
            return self.ev(e.value, st, lambda v, s: self.asyncgen_yield(v, s, k))
        if isinstance(fn, FuncInfo) and fn.qualname == "Hibernate.__await__":
            return self.suspend(st, k)
        raise Unsupported("bare yield in %s" % (fn.fqn if isinstance(fn, FuncInfo) else fn))

    # ---- async with
    def async_with(self, stmt, item, cm, st):
        if not (isinstance(cm, Val) and cm.ty[0] == "ref" and cm.ty[1]):
            raise Unsupported("async with over %r" % (cm,))

        def entered(v, s):
            if item.optional_vars is not None:
                self.assign_target(item.optional_vars, v, s)
            outs = self.exec_block(stmt.body, s)
            res = []
            for o, s2 in outs:
                if o.kind == "X":
                    exc = o.val
                    res.extend(self.call_aexit(cm, exc, s2, lambda r, s3, exc=exc: self.truth_val(
                        r, s3, lambda s4: [(N_, s4)], lambda s4: [(Outcome("X", exc), s4)])))
                else:
                    res.extend(self.call_aexit(cm, None, s2, lambda r, s3, o=o: [(o, s3)]))
            return res
        return self.await_method(cm, "__aenter__", [], st, entered)

    def call_aexit(self, cm, exc, st, k):
        if exc is None:
            args = [NONE, NONE, NONE]
        else:
            args = [self.type_of(exc), exc, NONE]
        return self.await_method(cm, "__aexit__", args, st, k)

    def await_method(self, obj, name, args, st, k):
        m = self.find_repo_method(obj.ty[1], name)
        if m is None:
            raise Unsupported("%s has no %s" % (obj.ty[1], name))
        return self.call_repo(m, [obj] + list(args), {}, st, lambda co, s: self.await_value(co, s, k), self_val=obj)

    # ================================================================== await / yield from
    def await_value(self, v, st, k):
        if isinstance(v, Singleton):
            if v.name == "hibernate":
                return self.suspend(st, k)
            if v.name in ("eternity", "instant"):
                ci = self.repo.cls({"eternity": "Eternity", "instant": "Instant"}[v.name])
                m = self.repo.find_method(ci, "__await__")
                return self.call_repo(m, [v], {}, st, lambda co, s: self.yield_from_value(co, s, k), self_val=v)
            raise Unsupported("await %s" % v.name)
        if isinstance(v, CoroVal):
            return self.run_coro(v, st, k)
        if isinstance(v, Val) and v.ty[0] == "ref":
            cn = v.ty[1]
            if cn is not None and cn != "coroutine":
                m = self.find_repo_method(cn, "__await__")
                if m is None:
                    raise Unsupported("await on %s without __await__" % cn)
                return self.call_repo(m, [v], {}, st, lambda co, s: self.yield_from_value(co, s, k), self_val=v)
            return self.opaque_await(v, st, k)
        raise Unsupported("await %r" % (v,))

    def yield_from_value(self, v, st, k):
        if isinstance(v, Singleton) and v.name == "hibernate":
            return self.suspend(st, k)
        if isinstance(v, CoroVal):
            return self.run_coro(v, st, k)
        if isinstance(v, GenExp) or self.is_listlike(v):
            raise Unsupported("yield from iterable (plain generator)")
        raise Unsupported("yield from %r" % (v,))

    def bb_coro___await__(self, recv, args, kwargs, st, k):
        return k(recv, st)

    def bb_hibernate___await__(self, recv, args, kwargs, st, k):
        return k(recv, st)

    def run_coro(self, co, st, k):
        """start and run a coroutine / __await__ generator to completion at this point"""
        if co.kind == "asyncgen":
            raise Unsupported("await on async generator")
        if getattr(co, "started", False):
            raise Unsupported("coroutine awaited twice")
        return self.run_function(co.info, co.args, st, k, closure=co.closure, direct=co.direct)

    def coro_ref(self, st, co):
        if co.ref is None:
            r = self.alloc(st, "coroutine", "coro")
            co.ref = Val(REF("coroutine"), r.t)
            self.coro_table = getattr(self, "coro_table", {})
            self.coro_table[r.t.get_id()] = co
            # ghost coroutine state: created
            self.set_coro_state(st, r.t, 0)
        return co.ref

    CORO_STATE_KEY = "coroutine.state"    # ghost field of model "coroutine": 0 created, 1 suspended, 2 running, 3 closed

    def set_coro_state(self, st, ref, code):
        arr = st.harr(self.CORO_STATE_KEY, z3.ArraySort(RefS, z3.IntSort()))
        st.hset(self.CORO_STATE_KEY, z3.Store(arr, ref, z3.IntVal(code)))

    def get_coro_state(self, st, ref):
        arr = st.harr(self.CORO_STATE_KEY, z3.ArraySort(RefS, z3.IntSort()))
        return z3.Select(arr, ref)

    def coro_lasti(self, coro, st, k):
        """`cr_frame.f_lasti` of a coroutine: measured interpreter fact (see facts.json): value for CREATED"""
        ref = self.coro_ref(st, coro).t if isinstance(coro, CoroVal) else coro.t
        created_val = self.interp_facts.get("f_lasti_created", 0)
        state = self.get_coro_state(st, ref)
        self.assumptions_used.add("cr_frame.f_lasti of a created coroutine is %d on the pinned interpreter (measured by setup)" % created_val)
        v = fresh("f_lasti", z3.IntSort())
        st.assume(z3.If(state == 0, v == created_val, v > created_val))
        return k(Val(INT, v), st)

    interp_facts = {}

    # ================================================================== suspension
    def suspend(self, st, k):
        """the Hibernate yield: the only point where control leaves the activity"""
        if st.in_spec:
            raise Unsupported("suspension inside specification")
        c = self.cur_contract
        st.note("suspend")
        if c is not None and (c.ghost_suspend or c.ghost_resume):
            states = [st]
            for g in c.ghost_suspend:
                states = [s2 for s in states for s2 in self.run_ghost(g, s)]
            outs = []
            for s in states:
                for o, s2 in self.suspend2(s, k):
                    if c.ghost_resume:
                        ss = [s2]
                        for g in c.ghost_resume:
                            ss = [s4 for s3 in ss for s4 in self.run_ghost(g, s3)]
                        outs.extend((o, s5) for s5 in ss)
                    else:
                        outs.append((o, s2))
            return outs
        return self.suspend2(st, k)

    def suspend2(self, st, k):
        c = self.cur_contract
        self.at_suspension(st)
        pre = st.snap()
        me = self.me_term(st)
        old_time = self.loop_field(st, "time")
        st.susp = st.susp + 1
        # --- interference: everything not final is havocked; invariants re-assumed lazily
        self.havoc_heap(st, full=True, reason="suspend", pre=pre)
        new_time = self.loop_field(st, "time")
        st.assume(new_time >= old_time)
        st.last_susp = st.snap()
        st.inv_base = st.last_susp
        self.assume_invariants_eagerly(st)
        if self.cur_contract is not None and not self.cur_contract.no_invariants:
            self.assume_kernel_facts(st, resume=True)
        outs = []
        # --- resumption 1: an interrupt of the Interrupt family, live and addressed to me
        s1 = st.copy()
        e = fresh("sig", RefS)
        s1.assume(e != NULL)
        s1.assume(subclass(cls_of(e), cls_const("Interrupt")))
        s1.assume(self.kernel_signal_class(e))
        s1.assume(z3.Not(self.is_new_obj_after(s1, e)))
        sig = Val(REF("Interrupt"), e)
        s1.assume(self.eval_clause("sig.scheduled and not sig._revoked and sig.target is me and loop.activity is me and loop.time == sig.due",
                                   s1, extra={"sig": sig, "me": Val(ANY, me)}))
        s1.note("resume[interrupt]")
        if c is not None:
            for cl in c.assume_on_wakeup:
                self.assumptions_used.add("%s: whenever an interrupt resumes it: %s" % (c.fqn, cl))
                s1.assume(self.eval_clause(cl, s1, extra={"sig": sig, "me": Val(ANY, me)}))
        if self.feasible(s1):
            outs.append((Outcome("X", sig), s1))
        # --- resumption 2: forceful close
        s2 = st
        ge = fresh("gexit", RefS)
        s2.assume(ge != NULL)
        s2.assume(cls_of(ge) == cls_const("GeneratorExit"))
        s2.note("resume[GeneratorExit]")
        self.assume_close_protocol(s2, z3.BoolVal(True))
        outs.append((Outcome("X", Val(REF("GeneratorExit"), ge)), s2))
        return outs

    def assume_close_protocol(self, st, cond):
        c = self.cur_contract
        if c is None:
            return
        for cl in c.assume_on_close:
            self.assumptions_used.add("%s: when GeneratorExit arrives: %s" % (c.fqn, cl))
            st.assume(z3.Implies(cond, self.eval_clause(cl, st)))

    def is_new_obj_after(self, st, e):
        return z3.BoolVal(False)

    def me_term(self, st):
        """the activity executing the function under verification (ghost constant)"""
        return self.me_const

    def loop_field(self, st, name):
        key, ty, _ = self.field_decl("Loop", name)
        return self.read_field(st, LOOP, key, ty).t

    def at_suspension(self, st):
        """obligations at a yield point: class invariants + declared suspension assertions"""
        self.assert_invariants(st, where="suspend")
        c = self.cur_contract
        if c is not None:
            self.check_guarantee(c, st, "suspend")
        if c is not None and len(st.frames) >= 1:
            for i, cl in enumerate(c.at_suspension):
                if self.in_top_frame(st):
                    goal = self.eval_clause_top(cl, st)
                    self.emit(st, "at_suspension", "at_suspension[%d]" % i, cl, goal)

    def in_top_frame(self, st):
        return True

    def havoc_heap(self, st, full=True, reason="", pre=None):
        """new heap epoch: final fields keep their arrays; `stable` expressions of the contract keep values"""
        pre = pre or st.snap()
        old_heap = st.heap
        old_epoch = st.epoch
        st.epoch = st.hs.new_epoch()
        # objects created by other activities meanwhile: the clock jumps by an unknown amount
        nb = fresh("clock", z3.IntSort())
        st.assume(nb >= st.clock)
        st.clock = nb
        st.epoch_bound = nb
        st.hs.epoch_bounds[st.epoch] = nb
        new_heap = {}
        for key, arr in old_heap.items():
            if self.is_final(key):
                new_heap[key] = arr
        # final fields never materialised yet must resolve to the same constant later: pre-create lazily
        st.heap = new_heap
        st.final_from = getattr(st, "final_from", None) or old_epoch
        st.touched = frozenset()
        st.inv_base = None
        st.inv_over = {}
        st.inv_hist = ()
        # objects allocated by this activity stay allocated/distinct: nothing to do (Ref terms persist)
        c = self.cur_contract
        # list lengths are non-negative in every reachable heap
        callee_cls = None
        for prefix in ("call ", "sync interference "):
            if reason.startswith(prefix):
                callee_cls = reason[len(prefix):].split(".")[0]
        self.stable_after_havoc(st, pre, sync=reason.startswith("sync interference"), callee_cls=callee_cls)

    def stable_after_havoc(self, st, pre, sync=False, callee_cls=None):
        c = self.cur_contract
        # fields of objects created by this activity that nobody else writes (registry: owner_stable / monotone)
        for (o, oc) in st.new_objs:
            for (cn, f, kind, when, why) in self.reg.owner_stable:
                if not self.static_subclass_safe(oc, cn):
                    continue
                fd = self.field_decl(cn, f)
                key, ty, _g = fd
                if ty[0] in ("list", "dict"):
                    raise Unsupported("owner_stable on container field")
                sort = self.key_sort(key, ty)
                new_arr = st.harr(key, sort)
                old_arr = pre.heap.get(key)
                if old_arr is None:
                    old_arr = st.hs.initial(pre.epoch, key, sort)
                nv, ov = z3.Select(new_arr, o), z3.Select(old_arr, o)
                self.assumptions_used.add("rely: %s.%s is %s for objects created by the running activity (%s)" % (cn, f, kind, why))
                if kind == "monotone":
                    st.assume(z3.Implies(ov, nv))
                elif when is None:
                    st.assume(nv == ov)
                elif " " in when or "(" in when or "." in when:
                    # general condition over `self` in the state before the suspension
                    fr2 = Frame(self.cur_func, None, spec=True)
                    fr2.locals = {"self": Val(REF(oc), o), "me": Val(ANY, self.me_const)}
                    s_old = st.copy()
                    s_old.heap_override = pre
                    st.assume(z3.Implies(self.eval_clause(when, s_old, frame=fr2), nv == ov))
                else:
                    conds = []
                    for wf in when.split("|"):
                        wkey, wty, _ = self.field_decl(cn, wf)
                        warr = pre.heap.get(wkey)
                        if warr is None:
                            warr = st.hs.initial(pre.epoch, wkey, self.key_sort(wkey, wty))
                        wv = z3.Select(warr, o)
                        conds.append(wv if wty[0] == "bool" else wv != NULL)
                    st.assume(z3.Implies(z3.Or(*conds), nv == ov))
        # rely conditions (registry): quantified over all objects of the class
        from .dsl import SUSPENSION_ONLY
        for (cn, fields, when, why, r_ens) in self.reg.relies:
            if (cn, tuple(fields), when) in SUSPENSION_ONLY:
                # a statement about what OTHER activities do: it does not cover synchronous foreign code, nor a callee that
                # is a method of that very class (the owner's own code writes the field)
                if sync or (callee_cls is not None and (callee_cls == cn or self.static_subclass_safe(callee_cls, cn))):
                    continue
            x = z3.Const("rely!" + cn, RefS)
            xv = Val(REF(cn), x)
            fr = Frame(self.cur_func, None, spec=True)
            fr.locals = {"self": xv, "me": Val(ANY, self.me_const)}
            s_old = st.copy()
            s_old.heap_override = pre
            cond = self.eval_clause(when, s_old, frame=fr)
            eqs = []
            for f in fields:
                key, ty, _g = self.field_decl(cn, f)
                sort = self.key_sort(key, ty)
                new_arr = st.harr(key, sort)
                old_arr = pre.heap.get(key)
                if old_arr is None:
                    old_arr = st.hs.initial(pre.epoch, key, sort)
                eqs.append(z3.Select(new_arr, x) == z3.Select(old_arr, x))
            if r_ens:
                s_new = st.copy()
                s_new.old = pre
                eqs.append(self.eval_clause(r_ens, s_new, frame=fr))
            self.assumptions_used.add("rely: %s.%s unchanged%s across my suspensions while %s (%s)" % (
                cn, "/".join(fields), (" and " + r_ens) if r_ens else "", when, why))
            st.assume(z3.ForAll([x], z3.Implies(z3.And(x != NULL, subclass(cls_of(x), cls_const(cn)), cond), z3.And(*eqs))))
        if c is None:
            return
        for ex in c.stable:
            try:
                new_v = self.eval_spec_value(ex, st, top=True)
                old_v = self.eval_spec_value(ex, st, top=True, snap=pre)
            except Unsupported:
                raise
            if new_v is None or old_v is None:
                continue
            self.assumptions_used.add("%s: `%s` keeps its value across the function's own suspensions (declared stable)" % (c.fqn, ex))
            st.assume(self.same_value(st, new_v, old_v))

    # ================================================================== opaque awaits (user code)
    def opaque_await(self, v, st, k):
        """await on user supplied awaitable: any number of suspensions, any result, any exception"""
        st.note("await <user code>")
        st.user_awaits += 1
        if st.user_start_time is None:
            st.user_start_time = self.loop_field(st, "time")
        self.at_suspension(st)
        pre = st.snap()
        old_time = self.loop_field(st, "time")
        n = fresh("usersusp", z3.IntSort())
        st.assume(n >= 0)
        st.susp = st.susp + n
        self.havoc_heap(st, full=True, reason="user await", pre=pre)
        st.assume(self.loop_field(st, "time") >= old_time)
        st.last_susp = st.snap()
        st.inv_base = st.last_susp
        # K-run: whenever code of this activity continues, the loop is running this activity
        self.assumptions_used.add("kernel fact K-run: when an activity's code continues after an await, loop.activity is that activity")
        st.assume(self.eval_clause("loop.activity is me", st))
        outs = []
        s1 = st.copy()
        r = fresh_val("result", ANY)
        s1.note("user:return")
        outs.extend(k(r, s1))
        s2 = st
        e = fresh("userexc", RefS)
        s2.assume(e != NULL)
        s2.assume(subclass(cls_of(e), cls_const("BaseException")))
        s2.note("user:raise")
        self.assume_close_protocol(s2, subclass(cls_of(e), cls_const("GeneratorExit")))
        # an Interrupt-family exception coming out of user code is a kernel signal that was delivered to this activity
        # (valid programs do not construct or raise the kernel's internal signals themselves)
        self.assumptions_used.add("user code raises no instances of the kernel's Interrupt classes on its own; "
                                  "such an exception leaving awaited user code is a signal delivered to this activity")
        sigv = Val(REF("Interrupt"), e)
        s2.assume(z3.Implies(subclass(cls_of(e), cls_const("Interrupt")),
                             self.eval_clause("sig.scheduled and not sig._revoked and sig.target is me and loop.activity is me",
                                              s2, extra={"sig": sigv, "me": Val(ANY, self.me_const)})))
        outs.append((Outcome("X", Val(REF("BaseException"), e)), s2))
        return outs

    def asyncgen_yield(self, v, st, k):
        """`yield v` of an async generator: end of a step.  The consumer (same activity) then runs arbitrary code
        -- including suspensions -- and either asks for the next item or abandons the generator (GeneratorExit)."""
        c = self.cur_contract
        if st.frames[0].func is not self.cur_func or len(st.frames) != 1:
            raise Unsupported("yield of an inlined async generator")
        st.note("yield#%d" % (st.step_no + 1))
        if c is not None:
            extra = {"result": v}
            saved = st.labels.get("step_snap")
            for i, cl in enumerate(c.step_ensures):
                self.emit(st, "step_post", "step_ensures[%d]" % i, cl, self.eval_clause(cl, st, extra=extra))
            if c.step_suspends is not None:
                lo, hi = c.step_suspends
                self.emit(st, "suspends", "step_suspends.min", "suspensions in this step >= %d" % lo, st.susp - st.step_base >= lo)
                if hi is not None:
                    self.emit(st, "suspends", "step_suspends.max", "suspensions in this step <= %d" % hi, st.susp - st.step_base <= hi)
        self.at_suspension(st)
        pre = st.snap()
        old_time = self.loop_field(st, "time")
        st.tick_time = old_time
        n = fresh("bodysusp", z3.IntVal(0).sort())
        st.assume(n >= 0)
        st.susp = st.susp + n
        self.havoc_heap(st, full=True, reason="consumer body", pre=pre)
        st.assume(self.loop_field(st, "time") >= old_time)
        st.last_susp = st.snap()
        st.inv_base = st.last_susp
        self.assume_invariants_eagerly(st)
        if c is not None and not c.no_invariants:
            self.assume_kernel_facts(st)
        st.step_base = st.susp
        st.step_snap = st.last_susp
        st.step_time = self.loop_field(st, "time")
        st.step_no += 1
        st.yields = st.yields + 1
        outs = []
        s1 = st.copy()
        s1.note("next")
        # the consumer asks for the next item from inside the same activity
        s1.assume(self.eval_clause("loop.activity is me", s1))
        outs.extend(k(NONE, s1))
        s2 = st
        ge = fresh("gexit", RefS)
        s2.assume(ge != NULL)
        s2.assume(cls_of(ge) == cls_const("GeneratorExit"))
        s2.note("abandon[GeneratorExit]")
        outs.append((Outcome("X", Val(REF("GeneratorExit"), ge)), s2))
        return outs


_cm_uid = [0]


class CMRecord:
    def __init__(self, stmt, item, depth):
        _cm_uid[0] += 1
        self.uid = _cm_uid[0]
        self.stmt = stmt
        self.item = item
        self.depth = depth


class IsliceVal:
    """asyncstdlib.islice(src, n): at most n items of src; after the n-th item no further item is requested"""
    def __init__(self, src, limit):
        self.src = src
        self.limit = limit


class ExitStackVal:
    def __init__(self):
        self.entries = []


class KwItems:
    def __init__(self, items):
        self.items = items


class DictValues:
    def __init__(self, d):
        self.d = d
