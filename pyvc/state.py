"""Path state of the symbolic executor."""
import z3
from .core import fresh, sort_of, RefS, Unsupported


class Snap:
    """immutable snapshot of the heap (for old(), labels, invariant base)"""
    __slots__ = ("heap", "epoch", "cells", "bound", "nnew", "locals")

    def __init__(self, heap, epoch, cells, bound=None, nnew=0, locals=None):
        self.nnew = nnew
        self.locals = locals
        self.heap = heap
        self.epoch = epoch
        self.cells = cells
        self.bound = bound


class Frame:
    __slots__ = ("locals", "func", "module", "defcls", "closure", "spec", "label")

    def __init__(self, func, module, defcls=None, closure=None, spec=False):
        self.locals = {}
        self.func = func
        self.module = module
        self.defcls = defcls      # ClassInfo in which the function is defined (for super())
        self.closure = closure    # dict of captured variables
        self.spec = spec
        self.label = None

    def copy(self):
        f = Frame(self.func, self.module, self.defcls, self.closure, self.spec)
        f.locals = dict(self.locals)
        f.label = self.label
        return f


class State:
    def __init__(self, hs):
        self.hs = hs              # HeapSpace: shared factory of initial heap constants
        self.frames = []
        self.heap = {}
        self.epoch = 0
        self.cells = {}
        self.pc = []
        self.susp = z3.IntVal(0)
        self.trace = []
        self.handling = []        # stack of exceptions currently being handled (for bare raise)
        self.old = None           # Snap at function entry
        self.labels = {}
        self.inv_base = None
        self.inv_over = {}          # (class, invariant) -> Snap: invariants whose last consistent point differs from inv_base
        self.inv_hist = ()          # earlier consistent points of this segment: (Snap, scope)
        self.touched = frozenset()
        self.new_objs = ()        # (term, clsname) allocated on this path
        self.depth = 0
        self.notes = ()
        self.in_spec = 0
        self.heap_override = None   # Snap while evaluating old(...)
        self._hyp_cache = None
        self.last_susp = None       # Snap taken right after the last suspension's havoc (or entry)
        self.cm_stack = ()
        self.wrote = frozenset()    # heap keys written on this path since entry
        self.fact_ids = frozenset() # ids of pc entries that are closed facts (not branch conditions)
        self.constructing = frozenset()
        self.callee_view = False
        self.step_base = z3.IntVal(0)
        self.step_snap = None
        self.step_no = 0
        self.yields = z3.IntVal(0)   # number of items this async generator has handed out so far (symbolic)
        self.user_start_time = None   # virtual time at which awaited user code first ran on this path
        self.user_awaits = 0      # how many times this path handed control to opaque user code
        self.step_time = None     # ghost: virtual time at which the current step of an async generator began
        self.tick_time = None     # ghost: virtual time of the previous `yield` of an async generator (entry time before the first)
        self.clock = z3.IntVal(0)   # allocation clock (birth stamp of the youngest object created by me)
        self.epoch_bound = z3.IntVal(0)   # everything stored in the initial arrays of this epoch was born <= this

    def copy(self):
        s = State(self.hs)
        s.frames = [f.copy() for f in self.frames]
        s.heap = dict(self.heap)
        s.epoch = self.epoch
        s.cells = dict(self.cells)
        s.pc = list(self.pc)
        s.susp = self.susp
        s.trace = list(self.trace)
        s.handling = list(self.handling)
        s.old = self.old
        s.labels = dict(self.labels)
        s.inv_base = self.inv_base
        s.inv_over = dict(self.inv_over)
        s.inv_hist = self.inv_hist
        s.touched = self.touched
        s.new_objs = self.new_objs
        s.depth = self.depth
        s.notes = self.notes
        s.in_spec = self.in_spec
        s.heap_override = self.heap_override
        s.last_susp = self.last_susp
        s.cm_stack = self.cm_stack
        s.wrote = self.wrote
        s.fact_ids = self.fact_ids
        s.clock = self.clock
        s.constructing = self.constructing
        s.callee_view = self.callee_view
        s.step_base = self.step_base
        s.step_snap = self.step_snap
        s.step_no = self.step_no
        s.yields = self.yields
        s.user_awaits = self.user_awaits
        s.user_start_time = self.user_start_time
        s.tick_time = self.tick_time
        s.step_time = self.step_time
        s.epoch_bound = self.epoch_bound
        return s

    @property
    def frame(self):
        return self.frames[-1]

    def snap(self):
        return Snap(dict(self.heap), self.epoch, dict(self.cells), self.clock, len(self.new_objs),
                    dict(self.frames[0].locals) if self.frames else None)

    def assume(self, cond):
        if z3.is_true(cond):
            return
        self.pc.append(cond)

    def assume_fact(self, cond):
        """a closed fact about the current heap (not a branch condition): pure evaluations export it to their caller"""
        if z3.is_true(cond):
            return
        self.pc.append(cond)
        self.fact_ids = self.fact_ids | {cond.get_id()}

    def note(self, s):
        self.trace.append(s)

    # -- heap access (honours old()-override)
    def harr(self, key, sort):
        if self.heap_override is not None:
            snap = self.heap_override
            if key in snap.heap:
                return snap.heap[key]
            arr = self.hs.initial(snap.epoch, key, sort)
            snap.heap[key] = arr
            return arr
        if key not in self.heap:
            self.heap[key] = self.hs.initial(self.epoch, key, sort)
        return self.heap[key]

    def hset(self, key, arr):
        if self.heap_override is not None or self.in_spec:
            raise Unsupported("heap write inside a specification expression")
        prev = self.heap.get(key)
        self.heap[key] = arr
        self.wrote = self.wrote | {key}
        # The abstract truth value of conditions is a function of the heap: a new heap has a new (unknown) one -- also when
        # it has not been looked at yet (a later look must not resolve to the array of the heap before).
        # Principle P (DESIGN 12.8): the value of a condition depends only on fields of objects that are not younger than
        # the condition itself (own fields, older operands/children, the loop).  So a write to ONE object o leaves the
        # truth of every condition older than o alone.
        tk = "Condition.$truth"
        if key != tk:
            tsort = z3.ArraySort(RefS, z3.BoolSort())
            fr = fresh("Hw!truth", tsort)
            obj = None
            if prev is not None and z3.is_app(arr) and arr.decl().kind() == z3.Z3_OP_STORE and arr.arg(0).eq(prev) \
                    and arr.arg(1).sort() == RefS:
                obj = arr.arg(1)
            if obj is None:
                self.heap[tk] = fr
            else:
                from .core import birth
                old = self.harr(tk, tsort)
                x = z3.Const("x!tr", RefS)
                self.heap[tk] = fr
                self.assume_fact(z3.ForAll([x], z3.Implies(birth(x) < birth(obj), z3.Select(fr, x) == z3.Select(old, x)),
                                           patterns=[z3.Select(fr, x)]))


class HeapSpace:
    """initial (and per-havoc-epoch) heap array constants, shared by all paths of one function"""

    def __init__(self, is_final=None):
        self.consts = {}
        self.next_epoch = 1
        self.is_final = is_final or (lambda key: False)
        self.axioms = []           # facts about the initial arrays (valid on every path)
        self.epoch_bounds = {}

    def initial(self, epoch, key, sort):
        if self.is_final(key):
            epoch = 0
        k = (epoch, key)
        if k not in self.consts:
            arr = z3.Const("H%d!%s" % (epoch, key), sort)
            self.consts[k] = arr
            self.axioms.extend(self.array_axioms(arr, key, self.epoch_bounds.get(epoch, z3.IntVal(0))))
        return self.consts[k]

    def array_axioms(self, arr, key, bound):
        out = list(self.born_before(arr, bound, key)) if self.born_before else []
        if key.endswith("#n"):
            x = z3.Const("x!len", RefS)
            out.append(z3.ForAll([x], z3.Select(arr, x) >= 0, patterns=[z3.Select(arr, x)]))
        if key.endswith(("#valn", "#cnt")):
            # lengths of the lists stored in a dict / number of keys: non-negative in every reachable heap
            x = z3.Const("x!len", RefS)
            if key.endswith("#cnt"):
                out.append(z3.ForAll([x], z3.Select(arr, x) >= 0, patterns=[z3.Select(arr, x)]))
            else:
                kk = z3.Const("k!len", arr.sort().range().domain())
                out.append(z3.ForAll([x, kk], z3.Select(z3.Select(arr, x), kk) >= 0, patterns=[z3.Select(z3.Select(arr, x), kk)]))
        return out

    born_before = None

    def new_epoch(self):
        e = self.next_epoch
        self.next_epoch += 1
        return e
