"""Engine base: class table, heap fields, allocation, truthiness, background axioms."""
import ast
import z3
from .core import *   # noqa
from .core import _cls_consts
from .repo import BUILTIN_EXC, ClassInfo
from .state import State, Frame, Snap, HeapSpace
from . import dsl


class Outcome:
    __slots__ = ("kind", "val")

    def __init__(self, kind, val=None):
        self.kind = kind   # N normal | R return | X raise | B break | C continue | Y yield
        self.val = val

    def __repr__(self):
        return "<%s %r>" % (self.kind, self.val)


N_ = Outcome("N")

import os as _os
FEAS_RLIMIT_QF = int(_os.environ.get("PYVC_FEAS_RLIMIT_QF", "300000"))
FEAS_RLIMIT_FULL = int(_os.environ.get("PYVC_FEAS_RLIMIT_FULL", "600000"))
# wall-clock safety net of the feasibility / entailment probes; far above what the resource budget takes even on a machine
# that is 16 times oversubscribed, so that the set of paths explored does not depend on the load
FEAS_WALL_MS = int(_os.environ.get("PYVC_FEAS_WALL_MS", "60000"))


class Obligation:
    def __init__(self, name, func, kind, clause, pc, goal, trace, props=(), info=None):
        self.name = name
        self.func = func
        self.kind = kind
        self.clause = clause
        self.pc = pc
        self.goal = goal
        self.trace = trace
        self.props = list(props)
        self.info = info or {}
        self.verdict = None
        self.model = None
        self.time = 0.0
        self.backend = None


LOOP = z3.Const("the_loop", RefS)
STATE_OBJ = z3.Const("usim_state", RefS)
HIBERNATE = z3.Const("hibernate_cmd", RefS)
INF = z3.Const("float_inf", z3.RealSort())


class EngineBase:
    def __init__(self, repo, reg):
        self.repo = repo
        self.reg = reg
        self.obligations = []
        self.cur_func = None
        self.cur_contract = None
        self.path_count = 0
        self.infeasible = 0
        self.assumptions_used = set()
        self.inlined = set()
        self.solver_timeout_ms = 4000
        self._class_axioms = None
        self.feas_cache = {}
        self._quant_cache = {}
        self.stats = {"feas_checks": 0}

    # ------------------------------------------------------------------ classes
    def class_info(self, name):
        if name is None:
            return None
        if name in BUILTIN_EXC:
            return None
        try:
            return self.repo.cls(name)
        except KeyError:
            m = self.reg.models.get(name)
            if m and m.module:
                return self.repo.cls(m.module + "." + name)
            raise

    def class_names_known(self):
        names = set(BUILTIN_EXC)
        for n, lst in self.repo.classes_by_name.items():
            names.add(n)
        return names

    def static_subclass(self, a, b):
        """concrete class names"""
        if a == b:
            return True
        ia = self.class_info(a) if a not in BUILTIN_EXC else None
        ib = self.class_info(b) if b not in BUILTIN_EXC else None
        return self.repo.is_subclass(ia or a, ib or b)

    def class_axioms(self):
        """ground + upward-closure facts about the known class hierarchy"""
        if self._class_axioms is not None and self._class_axioms_n == len(_cls_consts):
            return self._class_axioms
        self._class_axioms_n = len(_cls_consts)
        ax = []
        names = sorted(n for n in _cls_consts)
        consts = [cls_const(n) for n in names]
        if len(consts) > 1:
            ax.append(z3.Distinct(*consts))
        known = [n for n in names if n in BUILTIN_EXC or self._is_repo_class(n)]
        for a in known:
            for b in known:
                ax.append(subclass(cls_const(a), cls_const(b)) == z3.BoolVal(self.static_subclass(a, b)))
        c = z3.Const("c!ax", RefS)
        for a in known:
            # reflexive; every subclass of a is a subclass of a's bases
            for b in known:
                if a != b and self.static_subclass(a, b):
                    ax.append(z3.ForAll([c], z3.Implies(subclass(c, cls_const(a)), subclass(c, cls_const(b))),
                                        patterns=[subclass(c, cls_const(a))]))
        ax.append(z3.ForAll([c], subclass(c, c), patterns=[subclass(c, c)]))
        # instance-layout rule of CPython: two classes that each add their own slots/fields and are not related
        # cannot have a common subclass ("multiple bases have instance lay-out conflict")
        solid = [n for n in known if n in self.reg.models and self.reg.models[n].fields and self._is_repo_class(n)]
        for i, a in enumerate(solid):
            for b in solid[i + 1:]:
                if not self.static_subclass(a, b) and not self.static_subclass(b, a):
                    ax.append(z3.ForAll([c], z3.Not(z3.And(subclass(c, cls_const(a)), subclass(c, cls_const(b)))),
                                        patterns=[z3.MultiPattern(subclass(c, cls_const(a)), subclass(c, cls_const(b)))]))
        for (a, b, why) in getattr(self.reg, "disjoint", []):
            if a in _cls_consts and b in _cls_consts:
                self.assumptions_used.add("no class derives from both %s and %s (%s)" % (a, b, why))
                ax.append(z3.ForAll([c], z3.Not(z3.And(subclass(c, cls_const(a)), subclass(c, cls_const(b)))),
                                    patterns=[z3.MultiPattern(subclass(c, cls_const(a)), subclass(c, cls_const(b)))]))
        ax.append(cls_of(NULL) == cls_const("NoneType"))
        xx = z3.Const("x!cls", RefS)
        ax.append(z3.ForAll([xx], cls_of(xx) != NULL, patterns=[cls_of(xx)]))
        # assumption (listed in evidence): nobody derives a class from both the kernel's Interrupt and GeneratorExit
        if "Interrupt" in _cls_consts and "GeneratorExit" in _cls_consts:
            ax.append(z3.ForAll([c], z3.Not(z3.And(subclass(c, cls_const("Interrupt")), subclass(c, cls_const("GeneratorExit")))),
                                patterns=[z3.MultiPattern(subclass(c, cls_const("Interrupt")), subclass(c, cls_const("GeneratorExit")))]))
        self._class_axioms = ax
        return ax

    def _is_repo_class(self, n):
        try:
            return self.repo.cls(n) is not None
        except KeyError:
            return False

    def invalidate_axioms(self):
        self._class_axioms = None

    # ------------------------------------------------------------------ models / fields
    def model_of(self, clsname):
        return self.reg.models.get(clsname)

    def field_decl(self, clsname, field):
        """-> (heap key, type, is_ghost) for field of static class `clsname`, walking the MRO"""
        if clsname is None:
            cands = []
            for m in self.reg.models.values():
                if field in m.fields or field in m.ghost:
                    cands.append(m.name)
            if len(cands) == 1:
                clsname = cands[0]
            else:
                raise Unsupported("field %r of object of unknown class (candidates %s)" % (field, cands))
        names = [clsname]
        try:
            ci = self.class_info(clsname)
        except KeyError:
            ci = None
        if ci is not None:
            names = [c.name for c in self.repo.mro(ci)]
        for n in list(names):
            vm = self.reg.models.get(n)
            if vm is not None and vm.view and vm.view not in names:
                names.append(vm.view)       # abstract view implemented by this class (ghost fields live there)
        for n in names:
            m = self.reg.models.get(n)
            if m is None:
                continue
            if field in m.fields:
                return (n + "." + field, m.fields[field], False)
            if field in m.ghost:
                return (n + "." + field, m.ghost[field], True)
        return None

    def is_final(self, key):
        c, _, f = key.partition(".")
        f = f.split("#")[0]
        m = self.reg.models.get(c)
        return bool(m and f in m.final)

    def key_sort(self, key, ty):
        """z3 sort(s) of the heap array(s) for a field of type ty"""
        if ty[0] == "list":
            es = sort_of(ty[1])
            return z3.ArraySort(RefS, z3.ArraySort(z3.IntSort(), es))
        if ty[0] == "dict":
            raise Unsupported("dict field sort requested directly")
        if ty[0] == "set":
            raise Unsupported("set field sort requested directly")
        return z3.ArraySort(RefS, sort_of(ty))

    def kernel_signal_class(self, e):
        """signals are created by the framework only (closed world): the dynamic class of a delivered signal is
        Interrupt or one of the repository's subclasses of it, exactly"""
        base = self.repo.cls("Interrupt")
        names = []
        for lst in self.repo.classes_by_name.values():
            for ci in lst:
                if base in self.repo.mro(ci) and ci.name not in names:
                    names.append(ci.name)
        self.assumptions_used.add("closed world for kernel signals: a delivered signal is an instance of Interrupt or of one of the "
                                  "repository's subclasses of it (%s)" % ", ".join(sorted(names)))
        return z3.Or(*[cls_of(e) == cls_const(n) for n in sorted(names)])

    def set_sort(self):
        return z3.ArraySort(RefS, z3.ArraySort(RefS, z3.BoolSort()))

    def read_field(self, st, obj, key, ty):
        """obj: z3 Ref term"""
        if ty[0] == "list":
            return FldList(obj, key, ty[1])
        if ty[0] == "opt" and ty[1][0] == "list":
            raise Unsupported("optional list field %s: use read_optlist" % key)
        if ty[0] == "dict":
            return DictFld(obj, key, ty[1], ty[2], sorted=len(ty) > 3 and ty[3] == "sorted")
        if ty[0] == "set":
            from .call import WeakSetVal
            return WeakSetVal(obj, key, ty[1])
        arr = st.harr(key, self.key_sort(key, ty))
        return Val(ty, z3.Select(arr, obj))

    def write_field(self, st, obj, key, ty, val):
        if ty[0] == "list":
            if isinstance(val, PyConst) and val.v is None:
                cn, _, f = key.partition(".")
                m = self.reg.models.get(cn)
                if m is not None and f in m.none_as_empty:
                    self.assumptions_used.add("%s: the placeholder None (not in use yet) is represented by the empty list" % key)
                    self.set_list(st, FldList(obj, key, ty[1]), self.empty_list(ty[1]))
                    return
            lv = self.as_lval(st, val, ty[1])
            self.set_list(st, FldList(obj, key, ty[1]), lv)
            return
        if ty[0] == "set":
            from .call import EmptySet
            if not isinstance(val, EmptySet):
                raise Unsupported("assignment of a non-empty set to field %s" % key)
            mem = st.harr(key + "#mem", self.set_sort())
            st.hset(key + "#mem", z3.Store(mem, obj, z3.K(RefS, z3.BoolVal(False))))
            return
        if ty[0] == "dict":
            is_sorted = len(ty) > 3 and ty[3] == "sorted"
            if isinstance(val, DictLit) and not val.items and bool(getattr(val, "sorted", False)) == is_sorted:
                self.dict_clear(st, DictFld(obj, key, ty[1], ty[2]))
                return
            raise Unsupported("assignment of non-empty dict to field %s" % key)
        v = coerce(val, ty)
        arr = st.harr(key, self.key_sort(key, ty))
        st.hset(key, z3.Store(arr, obj, v.t))

    # ------------------------------------------------------------------ lists
    def list_sorts(self, ety):
        es = sort_of(ety)
        return z3.ArraySort(z3.IntSort(), es)

    def get_list(self, st, lv):
        """-> LVal snapshot of a list reference/value"""
        if isinstance(lv, LVal):
            return lv
        if isinstance(lv, Cell):
            src = st.heap_override.cells if st.heap_override is not None else st.cells
            return src[lv.cid]
        if isinstance(lv, FldList):
            a = st.harr(lv.key + "#a", z3.ArraySort(RefS, self.list_sorts(lv.ety)))
            n = st.harr(lv.key + "#n", z3.ArraySort(RefS, z3.IntSort()))
            return LVal(lv.ety, z3.Select(a, lv.obj), z3.Select(n, lv.obj))
        raise Unsupported("not a list: %r" % (lv,))

    def set_list(self, st, ref, lv):
        if isinstance(ref, Cell):
            if st.in_spec:
                raise Unsupported("list mutation inside specification")
            st.cells[ref.cid] = lv
        elif isinstance(ref, FldList):
            a = st.harr(ref.key + "#a", z3.ArraySort(RefS, self.list_sorts(ref.ety)))
            n = st.harr(ref.key + "#n", z3.ArraySort(RefS, z3.IntSort()))
            st.hset(ref.key + "#a", z3.Store(a, ref.obj, lv.arr))
            st.hset(ref.key + "#n", z3.Store(n, ref.obj, lv.n))
        else:
            raise Unsupported("cannot mutate list value %r" % (ref,))

    def new_cell(self, st, lv, kind="list"):
        cid = "c%d" % (len(st.cells) + 1)
        while cid in st.cells:
            cid += "_"
        st.cells[cid] = lv
        return Cell(cid, lv.ety, kind)

    def empty_list(self, ety):
        return LVal(ety, z3.K(z3.IntSort(), self.default_term(ety)), z3.IntVal(0))

    def default_term(self, ty):
        s = sort_of(ty)
        if ty[0] == "int":
            return z3.IntVal(0)
        if ty[0] == "real":
            return z3.RealVal(0)
        if ty[0] == "bool":
            return z3.BoolVal(False)
        if ty[0] in ("ref", "str"):
            return NULL
        if ty[0] == "opt":
            return opt_none(ty).t
        if ty[0] == "tup":
            return tup_dt(ty).constructor(0)(*[self.default_term(t) for t in ty[1]])
        raise Unsupported("no default for %r" % (ty,))

    def as_lval(self, st, v, ety=None):
        """list-like python value -> LVal (coercing element type when a literal)"""
        if isinstance(v, (Cell, FldList, LVal)) or type(v).__name__ == "DictEntryList":
            lv = self.get_list(st, v)
            if ety is not None and sort_of(lv.ety) != sort_of(ety):
                raise Unsupported("list element type mismatch %r vs %r" % (lv.ety, ety))
            return lv
        if isinstance(v, PyTup):
            if ety is None:
                ety = self.common_ety(v.items)
            arr = z3.K(z3.IntSort(), self.default_term(ety))
            for i, it in enumerate(v.items):
                arr = z3.Store(arr, i, coerce(it, ety).t)
            return LVal(ety, arr, z3.IntVal(len(v.items)), "tuple")
        raise Unsupported("not list-like: %r" % (v,))

    def common_ety(self, items):
        if not items:
            return ANY
        tys = []
        for it in items:
            if isinstance(it, Val):
                tys.append(it.ty)
            elif isinstance(it, ClsVal):
                tys.append(ANY)
            elif isinstance(it, PyConst) and it.v is None:
                tys.append(ANY)
            elif isinstance(it, PyConst) and isinstance(it.v, (int, float)) and not isinstance(it.v, bool):
                tys.append(REAL if isinstance(it.v, float) else INT)
            elif isinstance(it, PyTup):
                tys.append(TUP(*[self.common_ety([x]) for x in it.items]))
            else:
                raise Unsupported("list element %r" % (it,))
        t0 = tys[0]
        for t in tys[1:]:
            if t[0] != t0[0]:
                if {t[0], t0[0]} <= {"int", "real"}:
                    t0 = REAL
                    continue
                raise Unsupported("heterogeneous list literal")
            if t0[0] == "ref" and t[1] != t0[1]:
                t0 = ANY
        return t0

    # ------------------------------------------------------------------ allocation
    def alloc(self, st, clsname, prefix="new"):
        """fresh object: its birth stamp is later than that of everything reachable so far"""
        r = fresh(prefix + "_" + clsname, RefS)
        st.assume(r != NULL)
        st.assume(cls_of(r) == cls_const(clsname))
        st.clock = st.clock + 1
        st.assume(birth(r) == st.clock)
        st.new_objs = st.new_objs + ((r, clsname),)
        # ghost fields start from their declared defaults
        for n in self.mro_names(clsname):
            m = self.reg.models.get(n)
            if m is None:
                continue
            for f, dv in m.ghost_defaults.items():
                key, ty, _g = self.field_decl(n, f)
                self.write_field(st, r, key, ty, PyConst(dv) if not isinstance(dv, (int, float)) or isinstance(dv, bool) else (mk_int(dv) if isinstance(dv, int) else mk_real(dv)))
        return Val(REF(clsname), r)

    def mro_names(self, cn):
        try:
            ci = self.class_info(cn)
        except KeyError:
            ci = None
        return [c.name for c in self.repo.mro(ci)] if ci is not None else [cn]

    def key_type(self, key):
        base = key.split("#")[0]
        c, _, f = base.partition(".")
        m = self.reg.models.get(c)
        if m is None:
            return None
        return m.fields.get(f, m.ghost.get(f))

    def typed_refs(self, term, ty):
        """(ref term, class) pairs for the reference components of a value of declared type ty"""
        if ty is None:
            return []
        if ty[0] == "ref":
            return [(term, ty[1])] if ty[1] is not None else []
        if ty[0] == "tup":
            dt = tup_dt(ty)
            out = []
            for i, t in enumerate(ty[1]):
                out += self.typed_refs(dt.accessor(0, i)(term), t)
            return out
        if ty[0] == "opt":
            dt = opt_dt(ty)
            return self.typed_refs(dt.accessor(1, 0)(term), ty[1])
        return []

    def born_before(self, arr, bound, key=None):
        """axioms for an initial heap array: every reference stored in it was born no later than `bound`
        and has the declared class"""
        x = z3.Const("x!bb", RefS)
        i = z3.Const("i!bb", z3.IntSort())
        rng = arr.sort().range()
        out = []
        if key is not None and key.endswith("#dom") and isinstance(rng, z3.ArraySortRef) and rng.domain() == RefS:
            # keys of a dict are objects that exist
            kk = z3.Const("k!bb", RefS)
            el = z3.Select(z3.Select(arr, x), kk)
            out.append(z3.ForAll([x, kk], z3.Implies(el, z3.And(kk != NULL, birth(kk) <= bound)), patterns=[el]))
            return out
        ty = self.key_type(key) if key else None
        if ty is not None and key is not None and not key.endswith(("#n", "#none")):
            if ty[0] == "list" or (ty[0] == "opt" and ty[1][0] == "list"):
                ety = ty[1] if ty[0] == "list" else ty[1][1]
                el = z3.Select(z3.Select(arr, x), i)
                for rt, cn in self.typed_refs(el, ety):
                    out.append(z3.ForAll([x, i], z3.Or(rt == NULL, subclass(cls_of(rt), cls_const(cn))), patterns=[el]))
            elif ty[0] in ("ref", "tup", "opt"):
                el = z3.Select(arr, x)
                for rt, cn in self.typed_refs(el, ty):
                    out.append(z3.ForAll([x], z3.Or(rt == NULL, subclass(cls_of(rt), cls_const(cn))), patterns=[el]))
        if isinstance(rng, z3.ArraySortRef):
            if rng.domain() == z3.IntSort():
                el = z3.Select(z3.Select(arr, x), i)
                for rt in self.ref_components(el, rng.range()):
                    out.append(z3.ForAll([x, i], birth(rt) <= bound, patterns=[el]))
            return out
        el = z3.Select(arr, x)
        for rt in self.ref_components(el, rng):
            out.append(z3.ForAll([x], birth(rt) <= bound, patterns=[el]))
        return out

    def ref_components(self, term, sort):
        """Ref-sorted sub-terms of a term of datatype sort"""
        if sort == RefS:
            return [term]
        out = []
        if isinstance(sort, z3.DatatypeSortRef):
            for ci in range(sort.num_constructors()):
                c = sort.constructor(ci)
                for ai in range(c.arity()):
                    acc = sort.accessor(ci, ai)
                    sub = acc(term)
                    if sort.num_constructors() > 1:
                        # only meaningful when the constructor matches; guard not needed for != (over-approx is fine)
                        pass
                    out.extend(self.ref_components(sub, acc.range()))
        return out

    def ref_terms_of(self, st, v):
        if isinstance(v, LVal):
            return []
        if isinstance(v, Val):
            return self.ref_components(v.t, v.t.sort())
        if isinstance(v, PyTup):
            out = []
            for it in v.items:
                out.extend(self.ref_terms_of(st, it))
            return out
        return []

    # ------------------------------------------------------------------ solver-side helpers
    def feasible(self, st, extra=None):
        """cheap check whether pc (and extra) is satisfiable; unknown counts as feasible.
        First on the quantifier-free part only (fast, still sound for pruning), then with everything."""
        self.stats["feas_checks"] += 1
        qf = [c for c in st.pc if not self.has_quant(c)]
        # budgets are z3 resource units (deterministic, independent of machine load); the wall-clock limits are only a
        # safety net.  ~1.2e6 units per second on the reference machine.
        s = z3.Solver()
        s.set("rlimit", FEAS_RLIMIT_QF)
        s.set("timeout", FEAS_WALL_MS)
        for a in self.class_axioms_ground():
            s.add(a)
        for c in qf:
            s.add(c)
        if extra is not None:
            s.add(extra)
        r = s.check()
        if r == z3.unsat:
            self.infeasible += 1
            return False
        s = z3.Solver()
        s.set("rlimit", FEAS_RLIMIT_FULL)
        s.set("timeout", FEAS_WALL_MS)
        for a in self.class_axioms():
            s.add(a)
        for a in st.hs.axioms:
            s.add(a)
        for c in st.pc:
            s.add(c)
        if extra is not None:
            s.add(extra)
        r = s.check()
        if r == z3.unsat:
            self.infeasible += 1
            return False
        return True

    def has_quant(self, t):
        key = t.get_id()
        c = self._quant_cache.get(key)
        if c is None:
            c = self._has_quant(t, set())
            self._quant_cache[key] = c
        return c

    def _has_quant(self, t, seen):
        if z3.is_quantifier(t):
            return True
        i = t.get_id()
        if i in seen:
            return False
        seen.add(i)
        return any(self._has_quant(ch, seen) for ch in t.children())

    def class_axioms_ground(self):
        return [a for a in self.class_axioms() if not z3.is_quantifier(a)]

    def split(self, st, cond, k_true, k_false, label=None):
        """fork on a z3 Bool; continuations receive the state; returns combined outcome list"""
        cond = z3.simplify(cond)
        label = label or "b"
        if z3.is_true(cond):
            if label:
                st.note(label + ":T")
            return k_true(st)
        if z3.is_false(cond):
            if label:
                st.note(label + ":F")
            return k_false(st)
        out = []
        st2 = st.copy()
        st.assume(cond)
        if st.in_spec:
            out.extend(k_true(st))
            st2.assume(z3.Not(cond))
            out.extend(k_false(st2))
            return out
        if self.feasible(st):
            if label:
                st.note(label + ":T")
            out.extend(k_true(st))
        st2.assume(z3.Not(cond))
        if self.feasible(st2):
            if label:
                st2.note(label + ":F")
            out.extend(k_false(st2))
        return out


class DictLit:
    __slots__ = ("items", "sorted")

    def __init__(self, items, sorted=False):
        self.items = items
        self.sorted = sorted


class DictFld:
    """dict stored in a field: domain predicate + value array + insertion-ordered key list"""
    __slots__ = ("obj", "key", "kty", "vty", "sorted")

    def __init__(self, obj, key, kty, vty, sorted=False):
        self.obj = obj
        self.key = key
        self.kty = kty
        self.vty = vty
        self.sorted = sorted      # sortedcontainers.SortedDict
