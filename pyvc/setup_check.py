"""setup: measure interpreter facts on the pinned interpreter, smoke-test the engine."""
import json
import os
import subprocess
import sys

VERIF = os.path.dirname(os.path.dirname(os.path.abspath(__file__)))
PROBE = r'''
import inspect, json, sys
async def f():
    pass
c = f()
facts = {"python": sys.version.split()[0], "f_lasti_created": c.cr_frame.f_lasti,
         "state_created": inspect.getcoroutinestate(c)}
c.close()
facts["state_closed"] = inspect.getcoroutinestate(c)
class M(type):
    def __subclasscheck__(cls, sub):
        return True
class A(Exception, metaclass=M):
    pass
try:
    try:
        raise KeyError()
    except A:
        facts["except_uses_subclasscheck"] = True
except KeyError:
    facts["except_uses_subclasscheck"] = False
print(json.dumps(facts))
'''


def main():
    out = subprocess.run(["/venv/bin/python", "-c", PROBE], capture_output=True, text=True, timeout=60)
    if out.returncode != 0:
        print(out.stderr)
        return 1
    facts = json.loads(out.stdout.strip().splitlines()[-1])
    with open(os.path.join(VERIF, "facts.json"), "w") as fh:
        json.dump(facts, fh, indent=1, sort_keys=True)
    print("interpreter facts:", facts)
    import z3
    print("z3", z3.get_version_string())
    for tool in (["/usr/bin/cvc5", "--version"], ["/usr/bin/z3", "--version"]):
        v = subprocess.run(tool, capture_output=True, text=True).stdout.splitlines()[0]
        print(v)
    # engine smoke test: three kernel functions must verify
    sys.path.insert(0, VERIF)
    from . import runner
    recs = runner.verify_functions(["usim._core.loop.Interrupt.revoke", "usim._core.loop.Activation.__bool__",
                                    "usim._core.loop.Loop.schedule"], jobs=3)
    ok = all(r["status"] == "ok" and r["obligations"] and all(o["verdict"] == "discharged" for o in r["obligations"]) for r in recs)
    print("engine smoke test:", "ok" if ok else "FAILED")
    return 0 if ok else 1


if __name__ == "__main__":
    sys.exit(main())
