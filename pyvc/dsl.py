"""Sidecar contract vocabulary.  Contract files under /verif/contracts import * from here.

Clause bodies are *strings holding Python expressions*; they are parsed (ast) and evaluated by the
same symbolic evaluator that executes the code, in spec mode (old(), result, implies(), forall ...).
"""
import ast
from .core import INT, REAL, BOOL, STR, ANY, REF, TUP, OPT, LIST, DICT, SORTED_DICT, PYTUP, SET, MAP, SpecError  # noqa: F401


class Model:
    def __init__(self, name, fields, ghost, final, value, module, elem_hooks, ghost_defaults=None):
        self.ghost_defaults = dict(ghost_defaults or {})
        self.name = name
        self.fields = dict(fields)
        self.ghost = dict(ghost)
        self.final = set(final)
        self.value = value          # immutable value class: tuple of its fields
        self.module = module
        self.elem_hooks = elem_hooks
        self.view = None
        self.none_as_empty = set()


class Contract:
    def __init__(self, fqn, **kw):
        self.fqn = fqn
        self.params = kw.pop("params", {})          # name -> type (incl. self, closure variables)
        self.returns = kw.pop("returns", None)
        self.requires = _lst(kw.pop("requires", []))
        # preconditions of the *body* that only matter for non-virtual calls (super().m(...), Class.m(self, ...));
        # a virtual call on a receiver of a subclass that overrides m runs the override instead
        self.requires_direct = _lst(kw.pop("requires_direct", []))
        self.ensures = _lst(kw.pop("ensures", []))
        self.raises = kw.pop("raises", {})           # ExcName -> dict(when=str, ensures=[...])
        self.modifies = _lst(kw.pop("modifies", []))   # 'Class.field' or 'Class.field@expr'
        self.suspends = kw.pop("suspends", None)      # (min, max|None) for normal completion
        self.on_signal = _lst(kw.pop("on_signal", []))   # post of every exit through a foreign signal
        self.on_close = kw.pop("on_close", None)         # post for GeneratorExit exits (default on_signal)
        self.on_exit = _lst(kw.pop("on_exit", []))       # post of *every* exit route
        self.stable = _lst(kw.pop("stable", []))         # predicates preserved across own suspensions
        self.at_suspension = _lst(kw.pop("at_suspension", []))  # asserted at every own suspension
        self.guarantee = _lst(kw.pop("guarantee", []))   # two-state clause every atomic segment satisfies (old = segment start)
        self.loop_invariants = kw.pop("loop_invariants", {})   # 'while#1' / 'for#1' -> [expr]
        self.asserts = kw.pop("asserts", {})         # ordinal -> 'usage' | 'internal'
        self.ghost_entry = _lst(kw.pop("ghost_entry", []))   # ghost statements run at entry
        self.ghost_exit = _lst(kw.pop("ghost_exit", []))     # ghost statements run at normal exit
        self.ghost_any_exit = _lst(kw.pop("ghost_any_exit", []))   # ghost statements run at every exit (before the checks)
        self.ghost_suspend = _lst(kw.pop("ghost_suspend", []))     # ... right before each own suspension
        self.ghost_resume = _lst(kw.pop("ghost_resume", []))       # ... right after each resumption
        self.pure = kw.pop("pure", False)
        self.allocates = kw.pop("allocates", None)    # None: decided by the verifier (does any normal path allocate?)
        self.havoc_all = kw.pop("havoc_all", False)    # runs foreign code synchronously (coroutine.close): everything may change, no time passes
        self.inline = kw.pop("inline", False)        # verify here, but callers inline the body
        self.assumed = kw.pop("assumed", False)      # used by callers, NOT verified against the body (listed as assumption)
        self.no_invariants = kw.pop("no_invariants", False)
        self.inv_scope = kw.pop("inv_scope", None)     # None = all; else list of 'Class' / 'Class.name' this function relies on / re-establishes
        self.props = _lst(kw.pop("props", []))       # properties this contract serves
        self.clause_props = kw.pop("clause_props", {})
        self.unexpected_ok = _lst(kw.pop("unexpected_ok", []))   # exception classes allowed to escape (user errors)
        self.max_paths = kw.pop("max_paths", 4000)
        self.note = kw.pop("note", "")
        self.assume_entry = _lst(kw.pop("assume_entry", []))   # extra entry assumptions (listed in evidence)
        self.assume_on_close = _lst(kw.pop("assume_on_close", []))
        # protocol facts assumed whenever the function is resumed by an interrupt (`sig`) -- listed as assumptions
        self.assume_on_wakeup = _lst(kw.pop("assume_on_wakeup", []))
        # labels of non-suspending loops at whose head every class invariant in scope holds (checked, then assumed)
        self.loop_consistent = _lst(kw.pop("loop_consistent", []))
        # ensures are proved in order, each may use the earlier ones as lemmas (assert-then-assume)
        self.chain_ensures = kw.pop("chain_ensures", False)
        # element type of the list built by an effectful comprehension ("comp#n" -> type), default ANY
        self.comp_types = kw.pop("comp_types", {})
        self.vacuous_ok = kw.pop("vacuous_ok", False)     # the function never completes normally by design   # protocol facts that hold whenever GeneratorExit arrives
        self.assume_all = _lst(kw.pop("assume_all", []))       # invariants ('Class.name') assumed for *all* objects at entry
        self.self_cls = kw.pop("self_cls", None)
        self.step = kw.pop("step", None)             # async generator: per-step contract
        self.step_ensures = _lst(kw.pop("step_ensures", []))     # at every `yield v` (result = v, old() = function entry,
                                                                 # at_step_start(e) = value when the step began)
        self.step_suspends = kw.pop("step_suspends", None)        # (min, max) suspensions per step
        self.check_frame = kw.pop("check_frame", True)
        if kw:
            raise SpecError("unknown contract keys for %s: %s" % (fqn, sorted(kw)))


def _lst(x):
    if x is None:
        return []
    if isinstance(x, str):
        return [x]
    return list(x)


class Lemma:
    def __init__(self, name, hyps, concl, vars, props, note=""):
        self.name = name
        self.hyps = _lst(hyps)
        self.concl = concl
        self.vars = vars
        self.props = _lst(props)
        self.note = note


class Registry:
    def __init__(self):
        self.models = {}
        self.contracts = {}
        self.invariants = {}      # class -> [(name, expr, props)]
        self.lemmas = {}
        self.assumed = {}         # external fqn -> Contract (assumed, never verified)
        self.spec_funcs = {}      # name -> (params, expr)
        self.spec_rec = {}        # name -> (params [(name, type)], return type, body expr): recursive definitions
        self.spec_axioms = {}     # name of an uninterpreted spec function -> defining axioms (clauses)
        self.scans = []
        self.closures = {}        # property id -> [fqn]
        self.notes = []
        self.abstract = {}
        self.owner_stable = []   # (cls, field, kind, when, justification)
        self.relies = []         # (cls, fields, when-expr over self/me, justification)
        self.kernel_facts = []   # (name, expr over me, justification): hold whenever `me` runs outside a private wait


REG = Registry()


def model(name, fields=None, ghost=None, final=(), value=False, module=None, elem_hooks=None, ghost_defaults=None, view=None,
          none_as_empty=()):
    """view: name of an abstract (pseudo) model whose ghost fields and abstract contracts this class implements"""
    REG.models[name] = Model(name, fields or {}, ghost or {}, final, value, module, elem_hooks or {}, ghost_defaults)
    REG.models[name].view = view
    # list fields whose initial `None` (= "not in use yet") is represented by the empty list
    REG.models[name].none_as_empty = set(none_as_empty)


_DEFAULT_SCOPE = [None]


def default_scope(scope):
    """invariants the contracts that follow rely on and re-establish (their component); invariants of other components
    are preserved by the frame rule F (DESIGN 3.6): a component only touches interrupts subscribed to its own notifications"""
    _DEFAULT_SCOPE[0] = list(scope) if scope is not None else None


def contract(fqn, **kw):
    if fqn in REG.contracts:
        raise SpecError("duplicate contract " + fqn)
    if "inv_scope" not in kw and _DEFAULT_SCOPE[0] is not None and not kw.get("no_invariants"):
        kw["inv_scope"] = list(_DEFAULT_SCOPE[0])
    REG.contracts[fqn] = Contract(fqn, **kw)


def assume_contract(fqn, **kw):
    REG.assumed[fqn] = Contract(fqn, **kw)


def abstract_contract(cls, method, argnames, **kw):
    """contract of a method of an interface that has no single implementation in the repo
    (e.g. WaitQueue: HQWaitQueue / SDWaitQueue).  Callers use it; implementations are checked against it."""
    c = Contract("abstract:%s.%s" % (cls, method), **kw)
    c.argnames = list(argnames)
    REG.contracts[c.fqn] = c
    REG.abstract[c.fqn] = c


def invariant(cls, name, expr, props=()):
    REG.invariants.setdefault(cls, []).append((name, expr, list(props)))


def spec_function(name, params, expr):
    """pure spec function usable in clauses: name(params) == expr"""
    REG.spec_funcs[name] = (list(params), expr)


def spec_rec(name, params, returns, body):
    """recursive spec function (z3 RecFunction); list parameters are passed as their element array"""
    REG.spec_rec[name] = (list(params), returns, body)


def spec_uninterpreted(name, params, returns, axioms=()):
    """uninterpreted spec function with defining axioms (closed clauses, usually `forall(...)`).  The axioms are part of
    the SPECIFICATION (they define the function, e.g. by structural recursion that the solver cannot unfold by itself);
    they are added as hypotheses in every function whose clauses use the function."""
    REG.spec_rec[name] = (list(params), returns, None)
    REG.spec_axioms[name] = list(axioms)


def class_typed_sequence(cls, field, attr):
    """the container class of `cls.field` is chosen per resource class by the class attribute `attr` (e.g. BaseResource.put_queue
    is `self.PutQueue()`: a list, or a sorted queue whose `append` inserts in priority order).  Representation obligation: a
    value stored into the field that is not created by `self.<attr>()` is a plain list, which is only the right class for
    receivers whose `attr` is `list`."""
    if not hasattr(REG, "class_typed"):
        REG.class_typed = {}
    REG.class_typed[(cls, field)] = attr


def disjoint_classes(a, b, why=""):
    """ASSUMPTION (listed in evidence): no class derives from both a and b"""
    if not hasattr(REG, "disjoint"):
        REG.disjoint = []
    REG.disjoint.append((a, b, why))


def lemma(name, hyps=(), concl=None, vars=None, props=(), note=""):
    REG.lemmas[name] = Lemma(name, hyps, concl, vars or {}, props, note)


def closure(prop, fqns):
    REG.closures.setdefault(prop, [])
    for f in fqns:
        if f not in REG.closures[prop]:
            REG.closures[prop].append(f)


def owner_stable(cls, fields, when=None, why=""):
    """fields of objects allocated by the running function that no other activity writes"""
    for f in fields:
        REG.owner_stable.append((cls, f, "stable", when, why))


def monotone(cls, fields, why=""):
    """boolean fields that are only ever set to True"""
    for f in fields:
        REG.owner_stable.append((cls, f, "monotone", None, why))


SUSPENSION_ONLY = set()


def rely(cls, fields, when, why="", ensures=None, suspension_only=False):
    """across a suspension of the running activity `me`: for every object of cls satisfying `when` (over self, me)
    before the suspension, the listed fields are unchanged afterwards and the two-state clause `ensures`
    (old() = before the suspension) holds.  Must be backed by `guarantee` clauses."""
    REG.relies.append((cls, list(fields), when, why, ensures))
    if suspension_only:
        # about what OTHER activities do while this one is suspended: not applicable to synchronous foreign code run by a
        # callee of this activity (havoc_all), which may well be the owner's own code
        SUSPENSION_ONLY.add((cls, tuple(fields), when))


def kernel_fact(name, expr, why="", on_resume=None):
    """fact about the running activity `me`, assumed at function entry and after every completed (suspending) call;
    `on_resume` is the variant assumed when `me` is resumed at one of its own suspension points"""
    REG.kernel_facts.append((name, expr, why, on_resume))


def parse_expr(s):
    try:
        return ast.parse(s.strip(), mode="eval").body
    except SyntaxError as e:
        raise SpecError("bad clause %r: %s" % (s, e))


def parse_stmts(s):
    try:
        return ast.parse(s.strip(), mode="exec").body
    except SyntaxError as e:
        raise SpecError("bad ghost statement %r: %s" % (s, e))
