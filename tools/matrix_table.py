"""tools/matrix_table.py: markdown table of seeded/MATRIX.json (which registered check reports which seeded change)."""
import json, os
V = os.path.dirname(os.path.dirname(os.path.abspath(__file__)))
m = json.load(open(os.path.join(V, "seeded", "MATRIX.json")))
claimed = [c["property_id"] for c in json.load(open(os.path.join(V, "MANIFEST.json")))["checks"]]
print("| seed | property (claimed?) | what was changed | checks that report a VIOLATION | first failing obligation |")
print("|---|---|---|---|---|")
for sid in sorted(m):
    e = m[sid]
    meta = json.load(open(os.path.join(V, "seeded", sid, "meta.json")))
    summ = meta.get("summary", "").replace("|", "/").replace("\n", " ")
    summ = summ[:160] + ("…" if len(summ) > 160 else "")
    if "error" in e:
        print("| %s | %s | %s | patch does not apply | |" % (sid, sid.split("_")[0], summ)); continue
    al = e.get("alarming_checks", {})
    first = ""
    known = set(k["obligation"] for k in json.load(open(os.path.join(V, "known_findings.json")))["findings"] if k.get("status") == "open")
    for f in e.get("not_discharged", []):
        if "obligation" in f and f["obligation"].rsplit("/", 1)[0] in known:
            continue
        if "obligation" in f:
            first = f["obligation"].split("usim.")[-1].rsplit("/", 1)[0]; break
        if "status" in f and not first:
            first = "%s: %s" % (f["function"].split("usim.")[-1], (f.get("error") or "")[:60])
    tgt = e["target"]
    print("| %s | %s (%s) | %s | %s | `%s` |" % (sid, tgt, "claimed" if tgt in claimed else "n/a", summ,
          ", ".join(sorted(al)) if al else "— (not detected)", first))
det = [s for s in m if m[s].get("alarming_checks")]
tc = [s for s in m if m[s].get("target") in claimed]
print()
print("Detected by at least one registered check: %d of %d seeded changes; of the %d whose target property is claimed: %d by "
      "some check, %d by the check of the target property itself." % (
          len(det), len(m), len(tc), len([s for s in tc if m[s].get("alarming_checks")]),
          len([s for s in tc if m[s].get("detected_by_target_check")])))
