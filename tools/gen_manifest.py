#!/usr/bin/env python3
"""Regenerate MANIFEST.json from the table below (claimed properties) + properties.jsonl."""
import json, os
V = os.path.dirname(os.path.dirname(os.path.abspath(__file__)))
props = [json.loads(l) for l in open(os.path.join(V, "properties.jsonl"))]

CLAIMS = {
 "C09": dict(
   text="Every function of Lock (and the Notification/kernel functions it uses) is under a sidecar contract; the "
        "verifier re-reads /repo's source on every run and discharges, for all states, all numbers of waiters and a "
        "cancel/interrupt/close injected at the suspension point: FIFO hand-off postconditions, re-entrancy depth "
        "arithmetic, `available`, the exit-route clauses of __aenter__ (neither owner nor waiter after any abnormal exit), "
        "and the class invariants (free lock is idle, designated owner has a live wake-up, a live wake-up belongs to the "
        "owner, waiters distinct and never the owner) at every yield point and exit.",
   note="Trusted: own VC generator + z3/cvc5; rely conditions on Interrupt fields (owner-stable / monotone) justified by "
        "scans, not mechanised; kernel delivery facts (signal delivered only while live, to its target, at its due time) "
        "are the kernel theory K assumed at resumption; requires of __aenter__ that the running activity is not parked / "
        "designated are kernel facts taken as preconditions. Mutual exclusion over whole histories follows from the "
        "invariants by the rely/guarantee argument of DESIGN 3.6 (paper).",
   design="5/C09"),
}

checks = []
for p in props:
    if p["id"] in CLAIMS:
        c = CLAIMS[p["id"]]
        checks.append({
            "property_id": p["id"],
            "quick_cmd": "./check %s --tier quick" % p["id"],
            "thorough_cmd": "./check %s --tier thorough" % p["id"],
            "evidence_file": "evidence/%s.json" % p["id"],
            "replay_cmd_template": "./check %s --replay {path}" % p["id"],
            "engine": "pyvc",
            "level_claimed": {"category": "proof", "text": c["text"], "design_ref": c["design"]},
            "level_note": c["note"],
            "technique": "contract-based deductive verification: sidecar contracts on the real functions, VCs generated from /repo's AST by symbolic execution, discharged by z3 (cvc5 / z3-4.8 fallback)",
        })
na = [{"property_id": p["id"], "reason": "contracts for this property's functions are not written yet (engine stage of DESIGN section 10 still under construction); not claimed rather than claimed by another technique"}
      for p in props if p["id"] not in CLAIMS]
m = {"version": 1,
     "setup_cmd": "./check --setup",
     "hooks": {"guard": "USIM_VERIF", "enable": "no hooks: proofs read /repo source text, replays import the unmodified package",
               "baseline_off_cmd": "cd /repo && /venv/bin/python -m pytest -ra -q -p no:cacheprovider --timeout=900 --continue-on-collection-errors",
               "source_commits": [], "add_only": True},
     "engines": [{"name": "pyvc", "path": "pyvc/", "serves_properties": sorted(CLAIMS),
                  "kind_free_text": "AST->VC symbolic executor for a Python subset with sidecar contracts; z3/cvc5 back ends"}],
     "checks": checks,
     "notes": "see DESIGN.md; known findings in known_findings.json",
     "not_applicable": na}
json.dump(m, open(os.path.join(V, "MANIFEST.json"), "w"), indent=1)
print("claimed:", sorted(CLAIMS))
