#!/usr/bin/env python3
"""Regenerate MANIFEST.json from the table below (claimed properties) + properties.jsonl."""
import json, os
V = os.path.dirname(os.path.dirname(os.path.abspath(__file__)))
props = [json.loads(l) for l in open(os.path.join(V, "properties.jsonl"))]

COMMON_NOTE = ("Trusted: own VC generator (pyvc) and its encoding of the Python subset; z3 for unsat; floats as reals; built-in "
               "models of list/deque/dict; kernel theory K assumed at resumption points (a signal is delivered only while live, to its "
               "target, at its due time; first activations are signal-less and happen once); rely conditions and kernel facts listed "
               "in the evidence; cross-component invariant preservation by the frame rule F (DESIGN 12.3); the induction over schedules "
               "that turns per-segment guarantees into whole-history statements is a paper argument (DESIGN 3.6). ")

def claim(text, note="", design=""):
    return dict(text=text, note=COMMON_NOTE + note, design=design)

CLAIMS = {
 "C01": claim("Contracts on Loop.schedule (exactly one activation queued for the selected date; usage assertions as call-site "
              "obligations), postpone/suspend (resume in the same step / exactly delay later, private wake-up dead on every exit), "
              "After/Before/Moment/Instant/Eternity/Delay/Time (exact resume date, same step when the date is reached, no normal "
              "completion path for dates that cannot hold any more), Scope.do date normalisation (the start date reaches the task unconverted: ghost Task.start_at/start_delay), the task wrapper's start date. "
              "Kernel: both wait-queue back ends (heap+dict, SortedDict) are proved to refine one abstract view (FIFO per date, pop = "
              "complete FIFO of the smallest date; heap order and key/dict coupling as invariants); Loop._run_events is proved "
              "against that view: the clock never decreases, every queued date lies strictly after the clock between time steps, the "
              "pending FIFO of a step is drained before the clock moves, and it returns only with nothing queued; Loop.__init__ queues "
              "the roots at `start` in argument order.",
              "Assumed: the interface to foreign code (Loop._run_coroutine: activities reach the loop only through Loop.schedule and "
              "respect its usage assertions), stdlib contracts of heapq / SortedDict.popitem(0), float rounding (reals), infinite dates.",
              "5/C01"),
 "C03": claim("On every exit path (normal, exception, foreign signal, GeneratorExit) of postpone, suspend, Notification/Condition "
              "awaits, Lock, Queue, Pipe, Scope and the task wrapper every signal the function created is dead; internal assertions "
              "(`task is loop.activity`, `err.subject is self`, Done set once, `child.parent is self`) are proved; signals are "
              "addressed to their owner (invariants on CancelTask, Scope, InterruptScope).",
              "One internal assertion is assumed, not proved (`assert self._closed` in Queue._await_message). Absence of livelock is "
              "only covered as 'every loop of a primitive suspends' (suspension counters); Connective waits are not under contract.", "5/C03"),
 "C04": claim("Scope.__aexit__ on every exit route ends with the scope shut down (not interruptable, own signals dead) and every "
              "registered child having its final outcome; children are closed non-volatile first; do() on a closed scope raises and "
              "registers nothing; Task.__close__/payload wrapper: a task closed before its first activation runs no payload code.",
              "'Final outcome stored' stands for 'done' up to the re-entrant close window (Task.result_without_done_is_closing). "
              "Descendants are covered by modularity (each nested scope's own contract), not by an explicit induction.", "5/C04"),
 "C05": claim("_collect_exceptions is proved equal to a recursive spec (first privileged failure, else exactly the non-suppressed "
              "failures, same objects, once, in order); _propagate_exceptions as a decision table (never an own exception and a "
              "Concurrent); __child_finished__ records a failure once and schedules the owner's cancel signal in the same segment; "
              "the wrapper classifies CancelTask / GeneratorExit / other exceptions.",
              "Verified for Scope's own SUPPRESS/PROMOTE tables (EnvironmentScope excluded); Concurrent.__new__ is an assumed contract.", "5/C05"),
 "C06": claim("Task.status as a function of (outcome, runner state); cancel(): finished -> nothing, unstarted -> cancelled at once and "
              "the wrapper's first activation runs no payload code, running -> one live CancelTask queued for this step; __await__ returns "
              "the stored outcome; invariants: done implies outcome, a started runner's task is not done, cancellations are addressed to "
              "their subject.", "Write-once of the outcome is a rely condition backed by the guards in cancel/__close__ (scan), not a "
              "mechanised obligation of the wrapper.", "5/C06"),
 "C07": claim("InterruptScope.__aenter__ subscribes the scope's interrupt for every kind of notification (virtual dispatch over "
              "After/Moment/Condition/Delay/Notification); _disable_interrupts leaves both scope signals dead on every path of __aexit__; "
              "_is_suppressed swallows exactly the scope's own signals; Moment/After subscriptions fire at the date, now if reached, "
              "never for a past moment.",
              "Connectives (a & b, a | b) as until-notifications are not under contract (they are never triggered: DESIGN 6/D3); "
              "run(till=...) itself is not under contract.", "5/C07"),
 "C08": claim("Condition.__await__ returns only in a segment in which the condition evaluates true and after at least one suspension; "
              "Condition.__subscribe__ delivers now iff true; invariants 'no waiter parked on a true Flag/InverseFlag/Done'; Flag.set "
              "puts the new value in force and wakes everybody before it yields. Connectives: All/Any.__bool__ are and/or over the "
              "children's current values; a & b / a | b (Condition, All, Any) build exactly the documented child lists and evaluate to "
              "and/or of the operands; ~ on Flag/InverseFlag/Done/NotDone/After/Before/Eternity/Instant yields a condition with the "
              "negated value; await (a & b) / (a | b) suspends at least once and completes only when the connective evaluates true. "
              "Tracked values: a comparison registers itself with each tracked operand; Tracked.set puts the new value in force and has "
              "every registered comparison re-evaluated for it before the setter yields.",
              "Assumed: contextlib.ExitStack + the subscriptions it holds inside Connective.__await_children__ (interface contract). "
              "AsyncComparison.__on_changed__/__bool__ (closure stored in a field) are an assumed interface; De Morgan (~ of All/Any is Any/All "
              "of the inverted children, with the negated value) is proved against the abstract contract of Condition.__invert__, which is "
              "checked for the leaf classes above and assumed for tracked/resource comparisons; principle P (a condition's value depends "
              "only on objects not younger than itself, DESIGN 12.8) is assumed.", "5/C08"),
 "C09": claim("Every function of Lock under contract: FIFO hand-off, re-entrancy depth arithmetic, `available`, exit routes of "
              "__aenter__ (neither owner nor waiter after any abnormal exit, ownership passed on), invariants (free lock idle, designated "
              "owner has a live wake-up, a live wake-up belongs to the owner, waiters distinct and never the owner) at every yield point.",
              "Preconditions of __aenter__ about the running activity are kernel facts (K10).", "5/C09"),
 "C10": claim("Queue.put appends at the tail and wakes the oldest receiver before yielding; _await_message hands out exactly the head of "
              "the buffer as it was at the receiver's last suspension (commit clause) and on cancel/interrupt/close at any suspension "
              "leaves the buffer untouched and gives the read mutex up; closed+empty raises StreamClosed; receivers are ordered by the "
              "Lock contracts.", "Queue.__await__ and Queue.__aiter__ (one head item per step, at least one suspension per step, ends only closed+drained) "
              "are under contract. `assert self._closed` after an empty wake-up is assumed.", "5/C10"),
 "C11": claim("Channel: put appends the message exactly once to the end of every registered buffer, adds/removes no buffer and wakes every "
              "waiting consumer before it yields (closed: StreamClosed, nothing stored); close keeps pending messages; `await channel` "
              "registers a fresh empty buffer, returns the head of it (first message since registration) and unregisters it on every exit "
              "route; `async for` hands out exactly the head of the private buffer per step, ends only when closed and drained, and "
              "unregisters on every exit; every function proves the guarantee that buffers registered by others only grow at the end and "
              "are never unregistered (the rely of each consumer).",
              "Assumed (listed in evidence): a consumer woken through the channel's notification finds a message or the channel closed "
              "(link wake-up signal <-> buffer, the Channel analogue of Queue's assert); composition of the per-function clauses into "
              "the per-consumer sequence statement is a paper argument (DESIGN 12).", "5/C11"),
 "C13": claim("Pipe: scale == min(1, throughput / sum of limits) as invariant (dict sum as ghost), every scale change wakes all "
              "waiting transfers in the same step, a transfer is registered with exactly its own limit while it runs and is removed on "
              "every exit route; UnboundedPipe.transfer.",
              "The fluid-model completion time (integral of the rate) is not proved; floats are reals.", "5/C13"),
 "C14": claim("interval(): every step resumes at previous tick + period, yields the current time, suspends at least once, and raises "
              "IntervalExceeded exactly when the body was late; delay(): every step pauses exactly period after the body; negative "
              "periods raise ValueError.", "Float drift is outside (reals).", "5/C14"),
 "C16": claim("collect(): one result per activity in argument order, each the stored outcome of the task that ran that activity, after the scope "
              "block has ended (all children done: Scope.__aexit__); first(): ValueError exactly when count exceeds the number of "
              "activities, never more than count (all, for None) results are handed out, after the count-th result no further one is "
              "requested and the still running (volatile) monitors are aborted by the scope exit; both are proved against the contracts of "
              "Scope/Task/Queue, which the check includes.",
              "Assumed: asyncstdlib.islice (first n items, no further request after the n-th), the private result queue is not touched by "
              "the consumer of first(); the order/time at which results become available is Queue/Task semantics (C10/C06), not restated.",
              "5/C16"),
 "C17": claim("_subclasscheck_specialisation is proved equal to the Match predicate of the property for all tuples and any subclass "
              "relation; __subclasscheck__/__instancecheck__ dispatch and agree; flattened() returns exactly the leaf exceptions of the "
              "hierarchy in depth-first order (leaves() is an uninterpreted spec function with its defining equations).",
              "The equations of leaves() are part of the specification, one consequence (offsets == indices without nesting) is an "
              "induction not mechanised. Not under contract: __getitem__/_get_specialisation (cache identity), Concurrent.__new__; the `except` clause "
              "does not consult __subclasscheck__ on this interpreter (measured in setup; DESIGN 6/D8) -- not decided by an obligation.", "5/C17"),
 "C19": claim("Container: 0 <= level <= capacity and level == init + granted puts - granted gets as class invariants (ghost sums), _do_put/_do_get "
              "grant exactly when the amount fits / is available; Store: _do_put appends at the end iff there is room, _do_get hands out the "
              "oldest item exactly once (whole-view postconditions), content below capacity + 1; Resource: a slot is granted iff users < "
              "capacity, release removes exactly the releasing request's slot (idempotent), users below capacity + 1; BaseResource._trigger_put/"
              "_trigger_get (the takewhile scan, verified as the loop it is, for Container, Store and Resource/PriorityResource receivers): "
              "exactly a prefix of the queue in queue order is granted and leaves the queue, the rest keeps its order, nothing grantable is "
              "left at the head, the other queue and other resources' requests are untouched, and the queue object keeps its class "
              "(representation obligation: a priority-sorted queue is never replaced by a plain list); Put/Get.__init__: the new request joins "
              "the end of its queue, is granted in the same call iff it reaches the head and is grantable, registers the inverse trigger as its "
              "callback; the typed constructors ContainerPut/ContainerGet/StorePut/Release.__init__ (amount <= 0 raises ValueError and queues nothing; they are "
              "the call sites at which the typed-queue preconditions of Put/Get.__init__ are proved) and the public operations Container.put/get, "
              "Store.put/get, Resource.request/release carry the same whole-queue postconditions; Put/Get.cancel: a pending request leaves the queue and nothing else moves, cancelling twice or after the grant changes nothing and never raises.",
              "Assumed interfaces (usim.py.events / core are not under contract, property C18): Event.__init__, Event.succeed (marks the event "
              "granted with its value, touches no resource state), Event.triggered, Environment.now; no class derives from both Put and Get. "
              "Capacities and amounts are reals (float('inf') an unconstrained positive constant): 'never more than capacity' is proved as "
              "'< capacity + 1', i.e. exact for whole-number capacities. NOT under contract (so not decided): PriorityStore and FilterStore "
              "(_do_put/_do_get use sortedcontainers / a user filter; FilterStore's head-of-line blocking, DESIGN 12.13/D10, is a confirmed "
              "defect that no obligation decides), PreemptiveResource._do_put (eviction, Preempted details), SortedQueue ordering itself "
              "(sortedcontainers), PriorityRequest.__init__, Request.__exit__, that callbacks run within the time step (C18).", "12.13"),
 "C20": claim("Suspension counters: at least one suspension on every normal-completion path (per step for async generators) of "
              "postpone, suspend, Notification/Condition/After/Before/Moment/Instant awaits, Flag.set, Task.__await__, Scope.__await__, "
              "Queue.put/close/_await_message, Channel.put/close/__await__, Pipe.transfer, UnboundedPipe.transfer, interval, delay, Scope._await_children.",
              "Tracked.set. Not covered yet: AsyncOperation.__await__, Resources, collect/first, Channel.__aiter__ steps (no postponement per buffered item by design), Scope.__aexit__'s normal path as a separate clause; "
              "K-yield (one suspension lets every runnable activity run) is kernel theory, assumed.", "5/C20"),
}

checks = []
for p in props:
    if p["id"] in CLAIMS:
        c = CLAIMS[p["id"]]
        checks.append({
            "property_id": p["id"],
            "quick_cmd": "./check %s --tier quick" % p["id"],
            "thorough_cmd": "./check %s --tier thorough" % p["id"],
            "evidence_file": "evidence/%s.json" % p["id"],
            "replay_cmd_template": "./check %s --replay {path}" % p["id"],
            "engine": "pyvc",
            "level_claimed": {"category": "proof", "text": c["text"], "design_ref": c["design"]},
            "level_note": c["note"],
            "technique": "contract-based deductive verification: sidecar contracts on the real functions, VCs generated from /repo's AST by symbolic execution, discharged by z3 (cvc5 / z3-4.8 fallback)",
        })
NA = {
 "C02": "only partly expressible as contracts: FIFO per date and back-end independence are proved (WaitQueue refinement, Loop.schedule, __awake_all__ order) and serve C01; independence of hash seed / memory layout needs whole-program scans for set/WeakSet/id() ordered iteration (Tracked._listeners is such a WeakSet) that this family does not provide",
 "C12": "the resource classes (usim._basics.resource) and the exec-generated ResourceLevels operators are not under contract (Tracked.set is, under C08/C20); a confirmed defect of this property (D6: amounts leak when a borrower is cancelled while entering the block) is described in DESIGN 12.9 but not decided by any check",
 "C15": "Loop._run_events (quiescence, root order via Loop.__init__) is proved and reported under C01; Loop.run/StateHandler.assign (restoring the enclosing simulation), ActivityLeak reporting and usim.run(till=) are not under contract, and thread isolation rests on threading.local, outside this family",
 "C18": "the SimPy compatibility layer (usim.py.events/core) is not under contract yet",
}
na = [{"property_id": p["id"], "reason": NA.get(p["id"], "not under contract yet")} for p in props if p["id"] not in CLAIMS]
m = {"version": 1,
     "setup_cmd": "./check --setup",
     "hooks": {"guard": "USIM_VERIF", "enable": "no hooks: proofs read /repo source text, replays import the unmodified package",
               "baseline_off_cmd": "cd /repo && /venv/bin/python -m pytest -ra -q -p no:cacheprovider --timeout=900 --continue-on-collection-errors",
               "source_commits": [], "add_only": True},
     "engines": [{"name": "pyvc", "path": "pyvc/", "serves_properties": sorted(CLAIMS),
                  "kind_free_text": "AST->VC symbolic executor for a Python subset with sidecar contracts; z3/cvc5 back ends"}],
     "checks": checks,
     "notes": "see DESIGN.md section 12; known findings in known_findings.json. Every check decides by proof obligations; only when a changed function leaves the verifier's Python subset (no obligation can be generated) a failing scenario of scenarios/library/<id>/ stands in, labelled BOUNDED in the output -- never counted as proved, and on the unchanged tree nothing depends on it.",
     "not_applicable": na}
json.dump(m, open(os.path.join(V, "MANIFEST.json"), "w"), indent=1)
print("claimed:", sorted(CLAIMS))
