#!/bin/bash
# usage: tools/run_mutant.sh <seed dir> <PROP> [<PROP>...]   applies patch to /repo, runs checks, restores
set -u
D=$(realpath "$1"); shift
cd /repo && git apply "$D/patch.diff" || { echo "patch does not apply"; exit 9; }
cd /verif
for P in "$@"; do timeout 900 ./check $P 2>&1 | grep -E "^VIOLATION|^C[0-9]+:|^UNDECIDED|obligation:|CRASH" | head -8; echo "exit=$?"; done
git -C /repo checkout -- . 
