"""tools/seed_matrix.py [seed ids...]: apply each seeded change to /repo, re-verify every function under contract,
list the obligations that are no longer discharged and the property checks (./check <ID>) that therefore alarm;
restore /repo.  Writes seeded/MATRIX.json.  (Development tool; not a registered check.)"""
import json, os, subprocess, sys
VERIF = os.path.dirname(os.path.dirname(os.path.abspath(__file__)))
sys.path.insert(0, VERIF)
os.chdir(VERIF)

def run_all():
    code = ("import sys,json; sys.path.insert(0,%r)\n"
            "from pyvc import check, runner\n"
            "from pyvc.repo import RepoIndex\n"
            "reg=check.load_all(); fq=check.closure_of(reg,'ALL')\n"
            "recs=runner.verify_functions(fq,tier='quick',jobs=16)\n"
            "json.dump(recs,open('/tmp/matrix_recs.json','w'))\n" % VERIF)
    subprocess.run(["python3-vt", "-c", code], check=True, cwd=VERIF, env=dict(os.environ, PYTHONHASHSEED="0"))   # as ./check does
    return json.load(open("/tmp/matrix_recs.json"))

def main():
    ids = sys.argv[1:] or sorted(os.listdir(os.path.join(VERIF, "seeded")))
    ids = [i for i in ids if os.path.isdir(os.path.join(VERIF, "seeded", i))]
    claimed = [c["property_id"] for c in json.load(open("MANIFEST.json"))["checks"]]
    base = json.load(open("baseline/obligations.json"))
    mpath = os.path.join(VERIF, "seeded", "MATRIX.json")
    try:
        matrix = json.load(open(mpath))
    except Exception:
        matrix = {}
    for sid in ids:
        patch = os.path.join(VERIF, "seeded", sid, "patch.diff")
        r = subprocess.run(["git", "-C", "/repo", "apply", patch])
        if r.returncode != 0:
            print(sid, "PATCH DOES NOT APPLY"); matrix[sid] = {"error": "patch does not apply"}; continue
        try:
            recs = run_all()
        finally:
            subprocess.run(["git", "-C", "/repo", "checkout", "--", "."])
        failing = []
        alarms = {}
        for rec in recs:
            bf = base["functions"].get(rec["function"], {})
            changed = bf.get("deps_hash") != rec.get("deps_hash")
            if rec["status"] != "ok":
                failing.append({"function": rec["function"], "status": rec["status"], "error": rec.get("error")})
                continue
            for o in rec["obligations"]:
                if o["verdict"] == "discharged":
                    continue
                kind = "VIOLATION" if (o["verdict"] == "refuted" or changed) else "UNDECIDED"
                failing.append({"obligation": o["name"], "verdict": o["verdict"], "as": kind, "props": o.get("props")})
                for p in (o.get("props") or []):
                    if p in claimed and kind == "VIOLATION":
                        alarms.setdefault(p, 0)
                        alarms[p] += 1
        target = sid.split("_")[0]
        matrix[sid] = {"target": target, "target_claimed": target in claimed, "alarming_checks": alarms,
                       "detected_by_target_check": target in alarms, "detected_by_any": bool(alarms),
                       "not_discharged": failing[:12], "n_not_discharged": len(failing)}
        print(sid, "target", target, "claimed" if target in claimed else "NA", "alarms:", alarms or "-", "| other:", [f for f in failing if "status" in f][:2])
        json.dump(matrix, open(mpath, "w"), indent=1, sort_keys=True)

main()
