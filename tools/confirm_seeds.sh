#!/bin/bash
# confirm every incoming seed against /repo HEAD in a scratch worktree; keep the confirmed ones under seeded/
cd /verif
WT=/tmp/seedwt
rm -rf $WT; git -C /repo worktree prune; git -C /repo worktree add -q --detach $WT HEAD || exit 1
BASE_PASS=$(cd $WT && PYTHONPATH=$WT /venv/bin/python -m pytest -q -p no:cacheprovider --timeout=900 2>&1 | tail -1)
echo "HEAD tests: $BASE_PASS"
for d in seeded_incoming/*; do
  id=$(basename $d)
  (cd $WT && git checkout -q -- . )
  r_base=$(cd $WT && PYTHONPATH=$WT timeout 60 /venv/bin/python $OLDPWD/$d/demo.py >/dev/null 2>&1; echo $?)
  if ! (cd $WT && git apply $OLDPWD/$d/patch.diff 2>/dev/null); then
     if ! (cd $WT && patch -p1 -s --fuzz=3 < $OLDPWD/$d/patch.diff >/dev/null 2>&1); then echo "$id: PATCH-DOES-NOT-APPLY"; (cd $WT && git checkout -q -- . ; git clean -fdq); continue; fi
  fi
  r_mut=$(cd $WT && PYTHONPATH=$WT timeout 60 /venv/bin/python $OLDPWD/$d/demo.py >/dev/null 2>&1; echo $?)
  t_mut=$(cd $WT && PYTHONPATH=$WT /venv/bin/python -m pytest -q -p no:cacheprovider --timeout=900 2>&1 | tail -1)
  (cd $WT && git diff > /tmp/seed_current.diff)
  ok=no
  if [ "$r_base" = "0" ] && [ "$r_mut" != "0" ] && [ "$(echo $t_mut | sed "s/,[^,]*warning.*//; s/ in .*//")" = "$(echo $BASE_PASS | sed "s/,[^,]*warning.*//; s/ in .*//")" ]; then ok=yes; fi
  echo "$id: demo(HEAD)=$r_base demo(patched)=$r_mut tests='$t_mut' confirmed=$ok"
  if [ $ok = yes ]; then
     mkdir -p seeded/$id; cp /tmp/seed_current.diff seeded/$id/patch.diff; cp $d/demo.py seeded/$id/demo.py
     python3 - "$d/meta.json" "seeded/$id/meta.json" "$r_base" "$r_mut" "$t_mut" <<'PY'
import json,sys
src,dst,rb,rm,tm=sys.argv[1:]
try: m=json.load(open(src))
except Exception: m={}
m["confirmed"]={"tree":"repo HEAD incl. fix commits","demo_exit_unchanged":int(rb),"demo_exit_patched":int(rm),"tests_patched":tm,
  "ran":["git apply patch.diff in a scratch worktree of /repo HEAD","PYTHONPATH=<wt> /venv/bin/python demo.py (unchanged / patched)","PYTHONPATH=<wt> /venv/bin/python -m pytest -q (patched)"]}
json.dump(m,open(dst,"w"),indent=1)
PY
  fi
  (cd $WT && git checkout -q -- . ; git clean -fdq)
done
git -C /repo worktree remove --force $WT
