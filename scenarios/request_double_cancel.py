from usim.py import Environment
from usim.py.resources.resource import Resource
def main(env, res):
    first = res.request()
    yield first
    second = res.request()   # pending
    second.cancel()
    second.cancel()          # documented as idempotent
    with res.request() as third:   # pending, cancelled explicitly and again by __exit__
        third.cancel()
    yield env.timeout(1)
env = Environment()
res = Resource(env, capacity=1)
env.process(main(env, res))
env.run(until=5)
print("ok")
