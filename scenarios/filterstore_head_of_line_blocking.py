from usim.py import Environment
from usim.py.resources.store import FilterStore
got = []
def getter(env, store, name, flt):
    item = yield store.get(flt)
    got.append((name, item, env.now))
def main(env, store):
    env.process(getter(env, store, 'wants_b', lambda x: x == 'b'))
    yield env.timeout(1)
    env.process(getter(env, store, 'wants_a', lambda x: x == 'a'))
    yield env.timeout(1)
    yield store.put('a')
env = Environment()
store = FilterStore(env)
env.process(main(env, store))
env.run(until=20)
print(got)
assert got == [('wants_a', 'a', 2)], got
