"""
C01 demo: every activity waiting for a date must resume exactly at that date,
for every interleaving -- including when several activities wait on the *same*
time condition object and one of them is cancelled/interrupted before the date.

Exits 0 if all waits resume at exactly their date, non-zero otherwise.
"""
import os
import signal
import sys

from usim import run, time, Scope, until, Flag

signal.alarm(15)  # a hang must not block


def scenario_cancelled_first_waiter(make_condition, date):
    """two activities await one shared condition; the first one is cancelled early"""
    resumed = {}

    async def waiter(name, condition):
        await condition
        resumed[name] = time.now

    async def main():
        condition = make_condition(date)
        async with Scope() as scope:
            first = scope.do(waiter('first', condition))
            scope.do(waiter('second', condition))
            await (time + 5)
            first.cancel()

    run(main(), start=0)
    return resumed


def scenario_interrupted_first_waiter(make_condition, date):
    """the first waiter's wait is abandoned by an ``until`` scope before the date"""
    resumed = {}

    async def impatient(condition, give_up: Flag):
        async with until(give_up):
            await condition
            resumed['impatient@inner'] = time.now
        resumed['impatient gave up'] = time.now

    async def patient(condition):
        await condition
        resumed['patient'] = time.now

    async def main():
        condition = make_condition(date)
        give_up = Flag()
        async with Scope() as scope:
            scope.do(impatient(condition, give_up))
            scope.do(patient(condition))
            await (time + 3)
            await give_up.set()

    run(main(), start=0)
    return resumed


def scenario_plain(make_condition, date):
    """sanity: shared condition, nobody is cancelled"""
    resumed = {}

    async def waiter(name, condition):
        await condition
        resumed[name] = time.now

    async def main():
        condition = make_condition(date)
        async with Scope() as scope:
            scope.do(waiter('a', condition))
            scope.do(waiter('b', condition), after=2)
            scope.do(waiter('c', condition), at=date)

    run(main(), start=0)
    return resumed


failures = []
for label, make in (
    ('time >= 10', lambda date: time >= date),
    ('time == 10', lambda date: time == date),
):
    got = scenario_plain(make, 10)
    if got != {'a': 10, 'b': 10, 'c': 10}:
        failures.append('%s, plain sharing: expected a, b, c to resume at 10, got %r'
                        % (label, got))
    got = scenario_cancelled_first_waiter(make, 10)
    if got != {'second': 10}:
        failures.append(
            "%s, first waiter cancelled at 5: 'second' must resume at exactly 10, "
            "got %r" % (label, got))
    got = scenario_interrupted_first_waiter(make, 10)
    if got != {'impatient gave up': 3, 'patient': 10}:
        failures.append(
            "%s, first waiter interrupted at 3: 'patient' must resume at exactly 10, "
            "got %r" % (label, got))

if failures:
    print('C01 VIOLATED: a timed wait did not resume at its date')
    for failure in failures:
        print(' -', failure)
    sys.stdout.flush()
    os._exit(1)  # skip teardown noise of the activities that are stuck forever
print('ok: all waits resumed exactly at their date')
