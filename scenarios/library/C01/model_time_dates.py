"""C01 scenario family: delays, dates (==, >=), scope.do(at=/after=) from several start times incl. negative ones:
every wait resumes at exactly its date; the clock never decreases."""
import sys
import usim
from usim import Scope, time

def run_one(start, dates):
    errors = []; clock = []
    async def wait_delay(d):
        t0 = time.now
        await (time + d)
        clock.append(time.now)
        if time.now != t0 + d:
            errors.append("start %s: delay %s from %s resumed at %s" % (start, d, t0, time.now))
    async def wait_eq(t):
        await (time == t)
        clock.append(time.now)
        if time.now != t:
            errors.append("start %s: time == %s resumed at %s" % (start, t, time.now))
    async def wait_ge(t):
        t0 = time.now
        await (time >= t)
        clock.append(time.now)
        if time.now != max(t, t0):
            errors.append("start %s: time >= %s (asked at %s) resumed at %s" % (start, t, t0, time.now))
    async def started(expected):
        clock.append(time.now)
        if time.now != expected:
            errors.append("start %s: task for date %s started at %s" % (start, expected, time.now))
    async def main():
        async with Scope() as scope:
            for d in dates:
                scope.do(wait_delay(d))
                scope.do(wait_eq(start + d))
                scope.do(wait_ge(start + d))
                scope.do(wait_ge(start - 1))
                scope.do(started(start + d), at=start + d)
                scope.do(started(start + d), after=d)
    usim.run(main(), start=start)
    if clock != sorted(clock):
        errors.append("start %s: observed times not monotone: %r" % (start, clock))
    return errors

bad = []
for start in (0, 5, -5, -3):
    bad += run_one(start, [0, 1, 2, 3, 5, 8])
if bad:
    print("VIOLATION:", bad[0]); sys.exit(1)
sys.exit(0)
