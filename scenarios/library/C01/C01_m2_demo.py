"""
C01 demo: waiting for a date resumes exactly at that date, for every start time.

A simulation started at a negative time waits for the date ``0`` with
``time == 0``, ``time >= 0`` and ``until(time == 0)``. Each wait must resume
when the clock reads exactly 0 -- not earlier -- and the clock must never
be observed to run backwards.
"""
import signal
import sys

from usim import run, time, until, eternity, Scope

signal.alarm(15)  # a hang must not block forever


def check(start, date):
    seen = {}
    clock = []

    async def moment():
        await (time == date)
        seen['time == %r' % date] = time.now
        clock.append(time.now)

    async def after():
        await (time >= date)
        seen['time >= %r' % date] = time.now
        clock.append(time.now)

    async def interrupted():
        async with until(time == date):
            await eternity
        seen['until(time == %r)' % date] = time.now
        clock.append(time.now)

    async def ticker():
        # something ordinary happening strictly before the date
        clock.append(time.now)
        await (time + (date - start) / 2)
        seen['ticker'] = time.now
        clock.append(time.now)

    async def root():
        assert time.now == start
        async with Scope() as scope:
            scope.do(moment())
            scope.do(after())
            scope.do(interrupted())
            scope.do(ticker())
        clock.append(time.now)

    run(root(), start=start)
    for key, value in seen.items():
        expected = start + (date - start) / 2 if key == 'ticker' else date
        assert value == expected, (
            "start=%r: activity waiting for %s resumed at time %r instead of %r"
            % (start, key, value, expected)
        )
    assert len(seen) == 4, seen
    assert clock == sorted(clock), "clock ran backwards: %r" % clock


for start, date in [(0, 4), (2, 6), (-8, -2), (-6, 2), (-4, 0), (-0.5, 0.0)]:
    check(start, date)
print('ok')
sys.exit(0)
