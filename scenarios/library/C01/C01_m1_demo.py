"""
C01 demo: ``scope.do(..., at=t)`` must start the activity exactly at date ``t``.

The activity is launched from a non-zero current time towards a date that is
not exactly representable relative to "now" (binary floating point), together
with an observer waiting for the very same date via ``time == t``.
Both must see exactly ``t`` and must run in the same time step.
"""
import signal
import sys

from usim import run, time, Scope

signal.alarm(15)  # a hang must not block forever

CASES = [(0.2, 0.9), (0.3, 0.9), (0.4, 1.7), (0.6, 1.8), (0.7, 2.9), (1, 5), (0, 3)]


def check(launch_at, target):
    seen = {}
    order = []

    async def child():
        seen['child'] = time.now
        order.append('child')

    async def observer():
        await (time == target)
        seen['observer'] = time.now
        order.append('observer')

    async def late():
        # a date strictly later than target: must be served after the child
        await (time == target + 1)
        order.append('late')

    async def root():
        if launch_at > 0:
            await (time + launch_at)
        assert time.now == launch_at
        async with Scope() as scope:
            scope.do(observer())
            scope.do(late())
            scope.do(child(), at=target)

    run(root())
    assert seen.get('observer') == target, (
        "observer of 'time == %r' resumed at %r" % (target, seen.get('observer'))
    )
    assert seen.get('child') == target, (
        "scope.do(..., at=%r) issued at time %r started the activity at %r"
        % (target, launch_at, seen.get('child'))
    )
    assert order[-1] == 'late', order


for case in CASES:
    check(*case)
print('ok')
sys.exit(0)
