"""
C18 demo 1: AllOf/AnyOf fire when all/any members have fired -- also when the
same event is listed more than once (``ev & ev``, ``all_of([a, b, a])``).
"""
import sys
from usim.py import Environment


def check(cond, message):
    if not cond:
        print("FAIL:", message)
        sys.exit(1)


def main():
    env = Environment()
    log = {}

    def waiter(env):
        a = env.timeout(2, 'a')
        b = env.timeout(3, 'b')
        # the same event is a member twice
        both = env.all_of([a, b, a])
        result = yield both
        log['all_time'] = env.now
        log['all_value'] = result.todict()
        log['all_members'] = (a, b)

    def squared(env):
        ev = env.event()
        cond = ev & ev
        log['sq'] = cond
        log['sq_ev'] = ev
        yield env.timeout(1)
        ev.succeed(42)
        value = yield cond
        log['sq_time'] = env.now
        log['sq_value'] = value.todict()

    def late_duplicate(env):
        # duplicates of which one copy fired before the condition was made
        early = env.event().succeed('early')
        yield env.timeout(4)
        pending = env.timeout(1, 'pending')
        cond = env.all_of([pending, early, pending])
        value = yield cond
        log['late_time'] = env.now
        log['late_value'] = value.todict()
        log['late_members'] = (early, pending)

    env.process(waiter(env))
    env.process(squared(env))
    env.process(late_duplicate(env))
    env.run(until=20)

    check('sq_time' in log,
          "process waiting for `ev & ev` never resumed although ev fired at 1")
    check(log['sq_time'] == 1, f"`ev & ev` resumed at {log.get('sq_time')}, not 1")
    check(log['sq_value'] == {log['sq_ev']: 42}, f"bad value {log['sq_value']}")
    check(log['sq'].triggered and log['sq'].ok, "`ev & ev` did not trigger")

    check('all_time' in log,
          "process waiting for all_of([a, b, a]) never resumed"
          " although a and b fired at 2 and 3")
    check(log['all_time'] == 3, f"all_of resumed at {log['all_time']}, not 3")
    a, b = log['all_members']
    check(log['all_value'] == {a: 'a', b: 'b'}, f"bad value {log['all_value']}")

    check('late_time' in log,
          "process waiting for all_of([pending, early, pending]) never resumed")
    check(log['late_time'] == 5, f"resumed at {log['late_time']}, not 5")
    early, pending = log['late_members']
    check(log['late_value'] == {early: 'early', pending: 'pending'},
          f"bad value {log['late_value']}")
    print("ok")


if __name__ == '__main__':
    main()
