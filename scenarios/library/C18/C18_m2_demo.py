"""
C18 demo 2: ``interrupt(cause)`` raises Interrupt(cause) in a live process at
its current yield, one per yield in call order, within the same time step --
also when the yield that follows an interrupt is for an event that has already
been processed.
"""
import sys
from usim.py import Environment, Interrupt


def check(cond, message):
    if not cond:
        print("FAIL:", message)
        sys.exit(1)


def main():
    env = Environment()
    log = []
    done = env.event().succeed('done')  # fires (and is processed) at time 0

    def victim(env):
        try:
            yield env.timeout(10)
        except Interrupt as irq:
            log.append(('first', irq.cause, env.now))
        # ``done`` has long been processed: this is the yield at which the
        # second interrupt has to arrive
        try:
            value = yield done
        except Interrupt as irq:
            log.append(('second', irq.cause, env.now))
        else:
            log.append(('second-missed', value, env.now))
        try:
            yield env.timeout(5)
        except Interrupt as irq:
            log.append(('third', irq.cause, env.now))
        else:
            log.append(('slept', None, env.now))
        return 'finished'  # noqa: B901

    def attacker(env, target):
        yield env.timeout(3)
        assert done.processed
        target.interrupt('one')
        target.interrupt('two')

    process = env.process(victim(env))
    env.process(attacker(env, process))
    env.run(until=50)

    check(not process.is_alive and process.value == 'finished',
          f"victim did not finish, log={log}")
    expected = [('first', 'one', 3), ('second', 'two', 3), ('slept', None, 8)]
    check(log == expected,
          "interrupts were not delivered one per yield in the time step of the"
          f" interrupt call:\n  expected {expected}\n  got      {log}")
    print("ok")


if __name__ == '__main__':
    main()
