"""
C06 demo: cancelling one child task must never abort a sibling task.

A Task is itself awaitable and may be handed to ``Scope.do`` as the payload of
another ("relay") task.  Cancelling the relay - while suspended or before it
ever started - must cancel *only* the relay; the relayed sibling keeps running
and delivers its result to every awaiter.

Run as:  PYTHONPATH=<tree> timeout 20 /venv/bin/python demo.py
"""
import sys

from usim import run, time, Scope, TaskState, TaskCancelled


async def worker(log, value):
    log.append('started')
    try:
        await (time + 10)
    except BaseException as err:
        log.append('aborted by %s' % type(err).__name__)
        raise
    log.append('finished')
    return value


async def outcome(task):
    try:
        return 'value', await task
    except BaseException as err:
        return type(err).__name__, err


async def cancel_suspended_relay():
    """the relay is cancelled while suspended awaiting its sibling"""
    log = []
    async with Scope() as scope:
        sibling = scope.do(worker(log, 42))
        relay = scope.do(sibling)
        early_awaiter = scope.do(outcome(sibling))
        await (time + 1)
        assert relay.status is TaskState.RUNNING
        relay.cancel('stop relay')
        await (time + 1)
        # the relay is cancelled in the same time step ...
        assert relay.status is TaskState.CANCELLED, relay.status
        # ... but the sibling must be untouched
        assert sibling.status is TaskState.RUNNING, (
            "suspended relay cancelled => sibling status %s, log %s"
            % (sibling.status, log)
        )
    kind, err = await outcome(relay)
    assert kind == 'TaskCancelled' and isinstance(err, TaskCancelled), (kind, err)
    assert err.subject is relay and err.args == ('stop relay',), (err.subject, err.args)
    assert log == ['started', 'finished'], "sibling was disturbed: %s" % log
    assert sibling.status is TaskState.SUCCESS, sibling.status
    assert await early_awaiter == ('value', 42), await early_awaiter
    assert await outcome(sibling) == ('value', 42), await outcome(sibling)
    assert time.now == 10, time.now


async def cancel_unstarted_relay():
    """the relay is cancelled before it ever ran"""
    log = []
    async with Scope() as scope:
        sibling = scope.do(worker(log, 'ok'))
        await (time + 2)
        relay = scope.do(sibling)
        assert relay.status is TaskState.CREATED
        relay.cancel()
        assert relay.status is TaskState.CANCELLED
        await (time + 1)
        assert sibling.status is TaskState.RUNNING, (
            "unstarted relay cancelled => sibling status %s, log %s"
            % (sibling.status, log)
        )
    assert log == ['started', 'finished'], "sibling was disturbed: %s" % log
    assert await outcome(sibling) == ('value', 'ok'), await outcome(sibling)
    kind, err = await outcome(relay)
    assert kind == 'TaskCancelled' and err.subject is relay, (kind, err)


async def main():
    await cancel_suspended_relay()
    await cancel_unstarted_relay()


if __name__ == '__main__':
    try:
        run(main())
    except AssertionError as err:
        print('C06 VIOLATED:', err)
        sys.exit(1)
    print('ok')
