"""
C06 demo 1: every cancel() of a suspended task must raise the cancellation
inside the task at its *current* suspension point, in the same time step --
also when the task already received (and handled) an earlier cancellation
and has suspended again, e.g. for some asynchronous cleanup.
"""
import signal
import sys

from usim import run, Scope, time, instant, TaskCancelled, TaskState
from usim._primitives.task import CancelTask

signal.alarm(15)  # hard stop in case a broken tree makes the simulation hang

events = []


async def worker():
    try:
        await (time + 100)
    except CancelTask as first:
        events.append(('first', time.now, first.token))
        try:
            # asynchronous cleanup: a *new* suspension point
            await (time + 5)
            events.append(('cleanup-finished', time.now))
        except CancelTask as second:
            events.append(('second', time.now, second.token))
            raise
        raise


async def stubborn():
    """Shields one unit of work from cancellation, then goes on waiting"""
    try:
        await (time + 3)
    except CancelTask:
        events.append(('stubborn-shielded', time.now))
    await (time + 1000)
    events.append(('stubborn-finished', time.now))


async def sibling():
    await (time + 50)
    return 'sibling-result'


async def main():
    async with Scope() as scope:
        task = scope.do(worker())
        hard = scope.do(stubborn())
        other = scope.do(sibling())
        await (time + 1)
        task.cancel('a')
        hard.cancel('x')
        await (time + 1)
        assert time.now == 2
        assert not task.done, 'worker should still be cleaning up at t=2'
        # cancel at the second suspension point (inside the cleanup)
        task.cancel('b')
        await instant
        await instant
        assert ('second', 2, ('b',)) in events, (
            'second cancel() was not raised inside the task at its current '
            'suspension point in the same time step; events=%r' % (events,)
        )
        assert task.done and time.now == 2, (
            'task not finished in the time step of its cancellation: '
            'done=%r now=%r events=%r' % (bool(task.done), time.now, events)
        )
        assert task.status is TaskState.CANCELLED, task.status
        for _ in range(2):
            try:
                await task
            except TaskCancelled as err:
                assert err.subject is task
                assert err.args == ('b',), err.args
            else:
                raise AssertionError('awaiting a cancelled task did not raise')
        assert ('cleanup-finished', 6) not in events

        # the stubborn task swallowed its first cancellation (t=1) and is
        # now suspended on its long wait; it must still be cancellable
        await (time + 8)
        assert time.now == 10
        assert ('stubborn-shielded', 1) in events, events
        assert not hard.done
        hard.cancel('y')
        await instant
        await instant
        assert hard.done and time.now == 10, (
            'cancel() of a suspended task was silently dropped: '
            'done=%r now=%r events=%r' % (bool(hard.done), time.now, events)
        )
        try:
            await hard
        except TaskCancelled as err:
            assert err.subject is hard and err.args == ('y',), err.args
        else:
            raise AssertionError('awaiting a cancelled task did not raise')
        # siblings and the parent scope are unaffected
        assert await other == 'sibling-result'
        assert time.now == 50
    assert ('stubborn-finished', 1003) not in events


run(main())
print('OK')
sys.exit(0)
