"""
C06 demo 2: a task whose start is delayed (``scope.do(..., after=/at=)``) and
which is cancelled *before* its start date must never run any of its code;
it finishes as CANCELLED in the time step of the cancel(), all awaiters
(early and late) get TaskCancelled carrying the task and the token, and
neither the parent scope nor sibling tasks are affected.
"""
import signal
import sys

from usim import run, Scope, time, instant, TaskCancelled, TaskState

signal.alarm(15)  # hard stop in case a broken tree makes the simulation hang

ran = []
seen = []


async def payload(name):
    ran.append((name, time.now))
    await (time + 1)
    ran.append((name, 'end', time.now))
    return name


async def sibling():
    await (time + 50)
    return 'sibling-result'


async def early_awaiter(task, name):
    """Awaits the task before it is cancelled"""
    try:
        await task
    except TaskCancelled as err:
        seen.append((name, time.now, err.subject is task, err.args))


async def main():
    async with Scope() as scope:
        late = scope.do(payload('after'), after=10)
        dated = scope.do(payload('at'), at=20)
        kept = scope.do(payload('kept'), after=10)
        other = scope.do(sibling())
        scope.do(early_awaiter(late, 'early-1'))
        scope.do(early_awaiter(late, 'early-2'))
        await (time + 5)
        assert not late.done and not dated.done
        late.cancel('too', 'late')
        dated.cancel()
        await instant
        await instant
        assert late.done and dated.done and time.now == 5, (
            'delayed task not finished in the time step of its cancellation'
        )
        assert late.status is TaskState.CANCELLED, late.status
        assert dated.status is TaskState.CANCELLED, dated.status
        await instant
        assert sorted(seen) == [
            ('early-1', 5, True, ('too', 'late')),
            ('early-2', 5, True, ('too', 'late')),
        ], seen
        for _ in range(2):  # late awaiters, repeatedly
            try:
                await late
            except TaskCancelled as err:
                assert err.subject is late and err.args == ('too', 'late')
            else:
                raise AssertionError('awaiting cancelled task did not raise')
            try:
                await dated
            except TaskCancelled as err:
                assert err.subject is dated and err.args == ()
            else:
                raise AssertionError('awaiting cancelled task did not raise')
        # cancelling a finished task does nothing
        late.cancel('again')
        assert late.status is TaskState.CANCELLED
        # parent scope and siblings keep running
        assert await kept == 'kept'
        assert time.now == 11
        assert await other == 'sibling-result'
        assert time.now == 50
    assert ran == [('kept', 10), ('kept', 'end', 11)], (
        'code of a task cancelled before its start was run: %r' % (ran,)
    )
    ran.append('main-finished')


try:
    run(main())
except BaseException as err:
    raise AssertionError(
        'cancelling a not-yet-started (delayed) task aborted the simulation '
        'with %r; ran=%r seen=%r' % (err, ran, seen)
    ) from err
assert ran == [('kept', 10), ('kept', 'end', 11), 'main-finished'], ran
print('OK')
sys.exit(0)
