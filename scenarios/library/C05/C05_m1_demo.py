"""
C05 demo 1: a child failure of an OUTER scope must abort the outer body promptly,
even while that body is currently inside a NESTED scope block.

Exits 0 if the property holds, non-zero (AssertionError) otherwise.
Run as:  PYTHONPATH=<tree> timeout 20 /venv/bin/python demo.py
"""
import sys

from usim import run, Scope, time, instant, until, Concurrent


async def fail(exc, after):
    await (time + after)
    raise exc


async def ticker(log, name):
    # finite, so that a broken scope cannot make the demo run forever
    for _ in range(40):
        await (time + 1)
        log.append((name, time.now))


async def case_nested_scope(make_inner):
    """outer child fails at +2 while the body sits inside an inner scope block"""
    start = time.now
    error = KeyError('outer child')
    log = []
    outcome = None
    try:
        async with Scope() as outer:
            outer.do(fail(error, 2))
            outer.do(ticker(log, 'outer-sibling'))
            await instant  # all children are started now
            async with make_inner() as inner:
                inner.do(ticker(log, 'inner-child'))
                await (time + 10)
                log.append(('inner-body-continued', time.now))
            # the outer body must never get here: it was aborted inside `inner`
            log.append(('outer-body-continued', time.now))
            await (time + 10)
            log.append(('outer-body-finished', time.now))
    except Concurrent as err:
        outcome = err
    except BaseException as err:  # noqa
        outcome = err
    end = time.now
    assert isinstance(outcome, Concurrent), \
        f"outer scope must end with Concurrent, got {outcome!r}"
    assert len(outcome.children) == 1 and outcome.children[0] is error, \
        f"Concurrent must carry exactly the child's exception, got {outcome.children!r}"
    continued = [entry for entry in log if 'continued' in entry[0] or 'finished' in entry[0]]
    assert not continued, \
        f"outer body was not aborted by the child failure at {start + 2}: {continued}"
    assert end == start + 2, \
        f"outer scope must end at the time of the failure ({start + 2}), ended at {end}"
    late = [entry for entry in log if entry[1] > start + 2]
    assert not late, f"children kept running after the failure: {late}"
    # nothing may linger after the block either
    await (time + 5)
    late = [entry for entry in log if entry[1] > start + 2]
    assert not late, f"children kept running after the scope ended: {late}"


async def main():
    # inner block is a plain Scope
    await case_nested_scope(Scope)
    # inner block is an `until` scope whose notification is far in the future
    await case_nested_scope(lambda: until(time >= time.now + 1000))


if __name__ == '__main__':
    run(main())
    print('OK')
    sys.exit(0)
