"""
C05 demo 2: a ``Concurrent`` never contains cancellations or closures.

A child that merely forwards the closure of a *volatile* task of another
(already finished) scope - by awaiting that task - ends with
``VolatileTaskClosed``, a ``TaskClosed``. Such a closure aborts the scope
but must never show up inside a ``Concurrent``.

Exits 0 if the property holds, non-zero (AssertionError) otherwise.
Run as:  PYTHONPATH=<tree> timeout 20 /venv/bin/python demo.py
"""
import sys

from usim import run, Scope, time, instant, Concurrent, TaskClosed, TaskCancelled,\
    VolatileTaskClosed


async def background():
    for _ in range(1000):
        await (time + 1)


async def forward(task, after=0):
    """Wait for the result of another task, forwarding its outcome"""
    if after:
        await (time + after)
    return await task


async def fail(exc, after):
    await (time + after)
    raise exc


def check_content(outcome, expected):
    """the block outcome carries exactly ``expected`` child exceptions"""
    if not expected:
        assert outcome is None, \
            f"no child failed with a proper exception, but scope raised {outcome!r}"
        return
    assert isinstance(outcome, Concurrent), \
        f"scope must end with Concurrent, got {outcome!r}"
    leaked = [
        child for child in outcome.children
        if isinstance(child, (TaskClosed, TaskCancelled, GeneratorExit))
    ]
    assert not leaked, \
        f"Concurrent contains cancellations/closures {leaked!r}: {outcome!r}"
    assert len(outcome.children) == len(expected) and all(
        got is want for got, want in zip(outcome.children, expected)
    ), f"Concurrent must carry exactly {expected!r}, got {outcome.children!r}"


async def closed_volatile_task():
    """Provide a volatile task that was closed at the end of its scope"""
    async with Scope() as scope:
        task = scope.do(background(), volatile=True)
        await instant  # make sure the task is running before it is closed
    assert task.done
    try:
        await task
    except VolatileTaskClosed:
        pass
    else:
        assert False, "volatile task should have been closed with its scope"
    return task


async def main():
    volatile = await closed_volatile_task()

    # 1) a lone child that ends with a forwarded closure
    start, outcome = time.now, None
    try:
        async with Scope() as scope:
            scope.do(forward(volatile, after=2))
            await (time + 10)
    except BaseException as err:  # noqa
        outcome = err
    check_content(outcome, [])
    assert time.now == start + 2, \
        f"scope must end when its child ends abnormally at {start + 2}, not {time.now}"

    # 2) a forwarded closure simultaneous with proper failures
    start, outcome = time.now, None
    first, second = KeyError('first'), IndexError('second')
    try:
        async with Scope() as scope:
            # `forward` resumes at +3, postpones once to fetch the task's outcome
            # and thus ends in the same time step right after `first` and `second`
            scope.do(forward(volatile, after=3))
            scope.do(fail(first, 3))
            scope.do(fail(second, 3))
            scope.do(fail(ValueError('too late'), 4))
            await (time + 10)
    except BaseException as err:  # noqa
        outcome = err
    check_content(outcome, [first, second])
    assert time.now == start + 3, \
        f"scope must end at the first failure at {start + 3}, not {time.now}"

    # 3) same, seen through a nested scope: the inner Concurrent is what the
    #    outer Concurrent carries, and neither contains the closure
    start, outcome = time.now, None
    inner_error = KeyError('inner')

    async def nested():
        async with Scope() as inner:
            inner.do(forward(volatile, after=1))
            inner.do(fail(inner_error, 1))
            await (time + 10)

    try:
        async with Scope() as scope:
            scope.do(nested())
            await (time + 10)
    except BaseException as err:  # noqa
        outcome = err
    assert isinstance(outcome, Concurrent) and len(outcome.children) == 1, \
        f"outer scope must carry exactly the inner Concurrent, got {outcome!r}"
    check_content(outcome.children[0], [inner_error])
    assert time.now == start + 1


if __name__ == '__main__':
    run(main())
    print('OK')
    sys.exit(0)
