"""
C05 demo: a child that fails *while it is being shut down* at the end of its
scope is a direct child failure and must be reported in the ``Concurrent``
raised by the scope (exactly once, in order of occurrence, never silently
replaced by the closure that triggered it).

Run as:  PYTHONPATH=<tree> timeout 20 /venv/bin/python demo.py
"""
import sys
import signal

from usim import run, time, eternity, Scope, until, Concurrent

signal.alarm(18)  # a hang must not block


class CleanupFailed(Exception):
    pass


async def fails_at(delay, exc):
    await (time + delay)
    raise exc


async def fails_on_shutdown(exc):
    try:
        await eternity
    finally:
        # cleanup that breaks when the task is forcefully shut down
        raise exc


results = {}


async def scenario_sibling_failure():
    """child A fails at t=5; child B fails while being closed because of that"""
    first, second = KeyError('first'), CleanupFailed('second')
    try:
        async with Scope() as scope:
            scope.do(fails_at(5, first))
            scope.do(fails_on_shutdown(second))
            await eternity
    except Concurrent as err:
        results['sibling'] = (time.now, err.children, first, second)
    else:
        results['sibling'] = (time.now, None, first, second)


async def scenario_interrupted_scope():
    """until() scope is interrupted at t=3; its only child fails during close"""
    failure = CleanupFailed('only')
    try:
        async with until(time + 3) as scope:
            scope.do(fails_on_shutdown(failure))
            await eternity
    except Concurrent as err:
        results['until'] = (time.now, err.children, failure)
    else:
        results['until'] = (time.now, None, failure)


async def scenario_body_done():
    """body ends regularly, child A fails later, volatile B fails during close"""
    first, second = IndexError('first'), CleanupFailed('second')
    try:
        async with Scope() as scope:
            scope.do(fails_at(7, first))
            scope.do(fails_on_shutdown(second), volatile=True)
    except Concurrent as err:
        results['volatile'] = (time.now, err.children, first, second)
    else:
        results['volatile'] = (time.now, None, first, second)


async def main():
    async with Scope() as scope:
        scope.do(scenario_sibling_failure())
        scope.do(scenario_interrupted_scope())
        scope.do(scenario_body_done())


run(main())

errors = []

now, children, first, second = results['sibling']
if now != 5:
    errors.append('sibling: scope ended at %r instead of 5' % (now,))
if children is None:
    errors.append('sibling: scope did not raise Concurrent')
elif not (len(children) == 2 and children[0] is first and children[1] is second):
    errors.append(
        'sibling: Concurrent carries %r, expected exactly (%r, %r)'
        % (children, first, second)
    )

now, children, failure = results['until']
if now != 3:
    errors.append('until: scope ended at %r instead of 3' % (now,))
if children is None:
    errors.append(
        'until: failure %r of child during shutdown was swallowed, '
        'scope ended without exception' % (failure,)
    )
elif not (len(children) == 1 and children[0] is failure):
    errors.append(
        'until: Concurrent carries %r, expected exactly (%r,)' % (children, failure)
    )

now, children, first, second = results['volatile']
if now != 7:
    errors.append('volatile: scope ended at %r instead of 7' % (now,))
if children is None:
    errors.append('volatile: scope did not raise Concurrent')
elif not (len(children) == 2 and children[0] is first and children[1] is second):
    errors.append(
        'volatile: Concurrent carries %r, expected exactly (%r, %r)'
        % (children, first, second)
    )

assert not errors, 'C05 violated:\n  ' + '\n  '.join(errors)
print('ok')
sys.exit(0)
