"""
C20 demo: ``Queue.put`` must let other runnable activities run before it
completes - in *every* state of the queue, including the one where a consumer
is already suspended waiting for an item (and is made runnable by the put).
"""
import sys
from usim import run, Scope, time, Queue
from usim._core.handler import __USIM_STATE__


def turnstamp():
    loop = __USIM_STATE__.loop
    return loop.time, loop.turn


async def main():
    # -- 1. a single consumer is already waiting when the item is put --------
    queue = Queue()
    log = []

    async def consumer(tag):
        item = await queue
        log.append(('got', tag, item))

    async def bystander():
        log.append('bystander')

    async with Scope() as scope:
        scope.do(consumer('c0'))
        await (time + 1)  # consumer is now suspended in ``await queue``
        scope.do(bystander())  # some unrelated runnable activity
        before = turnstamp()
        await queue.put('item')
        after = turnstamp()
        log.append('put done')
    assert after > before, (
        "Queue.put with a waiting consumer completed in the same turn %r: "
        "it did not postpone" % (before,)
    )
    assert log == ['bystander', ('got', 'c0', 'item'), 'put done'], (
        "Queue.put with a waiting consumer completed before the runnable "
        "activities ran: %r" % (log,)
    )

    # -- 2. a loop of puts must not starve the consumers it wakes up ---------
    queue = Queue()
    log = []
    async with Scope() as scope:
        for idx in range(3):
            scope.do(consumer('c%d' % idx))
        await (time + 1)  # all consumers are queued up waiting
        for idx in range(3):
            await queue.put(idx)
            log.append(('put', idx))
    assert log.index(('got', 'c0', 0)) < log.index(('put', 2)), (
        "a loop of Queue.put starved the waiting consumers: %r" % (log,)
    )

    # -- control: the ordinary states (nobody waiting) ------------------------
    queue = Queue()
    before = turnstamp()
    await queue.put(1)
    assert turnstamp() > before, "Queue.put on idle queue did not postpone"
    before = turnstamp()
    assert await queue == 1
    assert turnstamp() > before, "Queue get of buffered item did not postpone"


if __name__ == '__main__':
    run(main())
    print('OK: Queue.put yields to other activities')
    sys.exit(0)
