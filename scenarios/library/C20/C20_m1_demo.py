"""
C20 demo: every step of ``interval`` must let other runnable activities run.

The loop body is suspended for *exactly* one period, so that at the next step
no time remains to wait for.  Right before the step a new activity is made
runnable (``scope.do``); the step of ``interval`` must postpone so that this
activity runs *before* the loop body is entered again.
"""
import sys
from usim import run, Scope, time, interval

PERIOD = 10
log = []


async def other(tag):
    log.append(('other', tag, time.now))


async def main():
    async with Scope() as scope:
        steps = 0
        async for now in interval(PERIOD):
            log.append(('step', now))
            steps += 1
            if steps == 4:
                break
            # the body takes exactly as long as the period ...
            await (time + PERIOD)
            # ... and makes another activity runnable right before the next step
            scope.do(other(now))

    expected = [
        ('step', 10), ('other', 10, 20),
        ('step', 20), ('other', 20, 30),
        ('step', 30), ('other', 30, 40),
        ('step', 40),
    ]
    assert log == expected, (
        "interval() step did not yield to a runnable activity when the loop "
        "body consumed exactly one period:\n  got      %r\n  expected %r"
        % (log, expected)
    )

    # same for a generic "does the step take a turn of the event loop" check
    from usim._core.handler import __USIM_STATE__
    loop = __USIM_STATE__.loop
    turns = []
    steps = 0
    before = None
    async for now in interval(PERIOD):
        if before is not None:
            turns.append((loop.time, loop.turn) > before)
        steps += 1
        if steps == 4:
            break
        await (time + PERIOD)
        before = (loop.time, loop.turn)
    assert all(turns), (
        "interval() step completed without postponing/suspending: %r" % turns
    )


if __name__ == '__main__':
    run(main())
    print('OK: interval steps yield to other activities')
    sys.exit(0)
