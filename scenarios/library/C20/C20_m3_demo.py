"""
C20 demo: every awaitable operation yields to the other runnable activities.

Operations on a Tracked value / on Resources that do not change the level
(setting the value it already has, ``tracked + 0``, increase/decrease by zero,
``Resources.set`` to the current levels, borrowing a zero amount) must still
let every other runnable activity run before they complete.

Exit code 0: property holds for these cases; non-zero: violated.
"""
import signal
import sys

from usim import run, Scope, Tracked, Resources, Capacities, time

signal.alarm(15)  # a hang must not block

FAILURES = []


async def check(name, operation):
    """Run ``operation`` while another activity is runnable; it must get its turn"""
    ran = []

    async def competitor():
        ran.append(time.now)

    async with Scope() as scope:
        scope.do(competitor())  # runnable in the current time step
        await operation()
        if not ran:
            FAILURES.append(name)
            print('FAIL: %s completed without yielding to a runnable activity' % name)
        else:
            print('ok:   %s' % name)


async def main():
    tracked = Tracked(3)
    resources = Resources(cores=4, memory=8)
    capacities = Capacities(cores=4)

    # sanity: operations that do change the level (pass on both trees)
    await check('tracked.set(new value)', lambda: tracked.set(5))
    await check('resources.increase(cores=1)', lambda: resources.increase(cores=1))

    # same operations in the state/input where nothing changes
    await check('tracked.set(current value)', lambda: tracked.set(tracked.value))

    async def add_zero():
        await (tracked + 0)
    await check('await (tracked + 0)', add_zero)
    await check('resources.increase(cores=0)', lambda: resources.increase(cores=0))
    await check('resources.decrease(memory=0)', lambda: resources.decrease(memory=0))
    await check(
        'resources.set(cores=<current level>)',
        lambda: resources.set(cores=resources.levels.cores),
    )

    async def borrow_nothing():
        async with resources.borrow(cores=0):
            pass
    await check('resources.borrow(cores=0) enter+exit', borrow_nothing)

    async def claim_nothing():
        async with capacities.claim(cores=0):
            pass
    await check('capacities.claim(cores=0) enter+exit', claim_nothing)

    # consequence: a polling loop of such operations starves everyone else
    progress = []

    async def worker():
        for _ in range(3):
            await (time + 0)
            progress.append(time.now)

    async with Scope() as scope:
        scope.do(worker())
        for _ in range(50):
            await resources.increase(cores=0)
        if len(progress) < 3:
            FAILURES.append('loop')
            print('FAIL: loop of 50 x increase(cores=0) starved a runnable worker '
                  '(progress=%r)' % progress)
        else:
            print('ok:   loop of zero-increases does not starve others')


run(main(), till=100)
assert not FAILURES, (
    'C20 violated: operations completed without yielding: %s' % ', '.join(FAILURES)
)
print('all operations yielded')
sys.exit(0)
