"""
C19 demo: a strictly better preempting request must evict the worst current
user within the time step it is made -- also when other (worse) requests are
already waiting in the queue of the PreemptiveResource.
"""
from usim.py import Environment
from usim.py.events import Interrupt
from usim.py.resources.resource import PreemptiveResource, Preempted

env = Environment()
resource = PreemptiveResource(env, capacity=1)
log = []


def holder():
    request = resource.request(priority=5)
    yield request
    log.append(('holder granted', env.now))
    try:
        yield env.timeout(10)
    except Interrupt as interrupt:
        assert isinstance(interrupt.cause, Preempted)
        log.append(('holder preempted', env.now))
    else:
        log.append(('holder done', env.now))
        yield resource.release(request)


def waiter():
    # worse than the holder: cannot preempt, waits in the queue
    yield env.timeout(1)
    request = resource.request(priority=7)
    yield request
    log.append(('waiter granted', env.now))
    yield resource.release(request)


def urgent():
    # strictly better than the holder: must preempt it at once
    yield env.timeout(2)
    request = resource.request(priority=0)
    yield request
    log.append(('urgent granted', env.now))
    assert len(resource.users) <= resource.capacity
    yield env.timeout(1)
    yield resource.release(request)


env.process(holder())
env.process(waiter())
env.process(urgent())
env.run(until=50)
print(log)
assert ('holder preempted', 2) in log, log
assert ('urgent granted', 2) in log, log
assert ('waiter granted', 3) in log, log
print('ok')
