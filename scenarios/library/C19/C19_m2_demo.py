"""
C19 demo 2: PreemptiveResource evicts the *worst* current user for a strictly
better preempting request and interrupts its process with the Preempted details.

Scenario: capacity 2; the user with the worse priority was granted *before*
the user with the better priority. A third request whose priority lies
between both (or is better than both) arrives while no one is queued:
  * the worst user (priority 5) must be evicted and interrupted,
  * the better user (priority 1) must stay,
  * the new request is granted at once; never more users than capacity.
"""
import sys
from usim.py import Environment
from usim.py.exceptions import Interrupt
from usim.py.resources.resource import PreemptiveResource, Preempted


FAILURES = []


def check(condition, message):
    """Record a violation; reported after the simulation has finished"""
    if not condition:
        FAILURES.append(message)


def scenario(new_priority):
    env = Environment()
    resource = PreemptiveResource(env, capacity=2)
    granted = {}     # name -> time of grant
    preempted = {}   # name -> (time, cause)
    finished = {}    # name -> time
    procs = {}

    def user(name, start, priority, hold):
        yield env.timeout(start)
        with resource.request(priority=priority) as request:
            try:
                yield request
                granted[name] = env.now
                check(
                    resource.count <= resource.capacity,
                    f"{resource.count} users for capacity {resource.capacity}"
                )
                yield env.timeout(hold)
                finished[name] = env.now
            except Interrupt as interrupt:
                preempted[name] = (env.now, interrupt.cause)

    # the *worse* user comes first, the better one second, nobody queues
    procs['A'] = env.process(user('A', start=0, priority=5, hold=10))
    procs['B'] = env.process(user('B', start=1, priority=1, hold=10))
    procs['C'] = env.process(user('C', start=2, priority=new_priority, hold=3))

    def observer():
        yield env.timeout(2.5)
        tag = f"[C priority={new_priority}] "
        check(granted.get('A') == 0 and granted.get('B') == 1,
              tag + f"setup broken: {granted}")
        check(
            'B' not in preempted,
            tag + "user B (priority 1) was evicted although user A (priority 5)"
            " is the worst current user"
        )
        check(
            'A' in preempted,
            tag + "request C is strictly better than the worst user A "
            "(priority 5) but A was not preempted at t=2"
        )
        if "A" not in preempted:
            return
        when, cause = preempted["A"]
        check(when == 2, tag + f"A preempted at {when}, not at 2")
        check(isinstance(cause, Preempted), tag + f"cause is {cause!r}")
        check(cause.by is procs['C'], tag + f"Preempted.by is {cause.by!r}")
        check(cause.usage_since == 0,
              tag + f"Preempted.usage_since is {cause.usage_since!r}")
        check(cause.resource is resource, tag + "Preempted.resource is wrong")
        check(granted.get('C') == 2,
              tag + f"C not granted at t=2 after preemption: {granted}")
        check(resource.count == 2, tag + f"count is {resource.count}")

    env.process(observer())
    env.run(until=20)
    check(finished.get('C') == 5, f"C finished at {finished.get('C')}")
    check(finished.get('B') == 11, f"B finished at {finished.get('B')}")
    check('A' not in finished, "A finished despite being preempted")


if __name__ == '__main__':
    scenario(new_priority=3)   # between both users: must evict A
    scenario(new_priority=0)   # better than both: must still evict A, not B
    if FAILURES:
        for failure in FAILURES:
            print("PROPERTY VIOLATION:", failure)
        raise AssertionError(f"C19 violated: {FAILURES[0]}")
    print("ok")
