"""
C19 demo 1: a completed put/get that makes the head request of the opposite
queue grantable must grant it within the same time step.

Scenario (bounded Store, capacity 1, and bounded Container):
  * the store is full and a second put is blocked (nobody is getting yet),
  * later, two gets are issued at the same instant: the first one is served
    at once, the second one has to wait for the blocked put to move in,
  * the first get frees the slot -> the blocked put completes -> the stored
    item must be handed to the second get in that very time step.
A mirrored scenario checks the get side (blocked get, two puts at one instant).
"""
import sys
from usim.py import Environment
from usim.py.resources.store import Store
from usim.py.resources.container import Container


FAILURES = []


def check(condition, message):
    """Record a violation; reported after the simulation has finished"""
    if not condition:
        FAILURES.append(message)


def scenario_store():
    env = Environment()
    store = Store(env, capacity=1)
    log = {}

    def watch(name, event):
        value = yield event
        log[name] = (env.now, value)

    def main():
        yield store.put('X')
        blocked = store.put('Y')         # store is full -> has to wait
        env.process(watch('putY', blocked))
        yield env.timeout(1)
        check(not blocked.triggered, "put into a full store was granted")
        first, second = store.get(), store.get()
        env.process(watch('get1', first))
        env.process(watch('get2', second))
        yield env.timeout(1)
        # everything below must have happened at time 1
        check(log.get('get1') == (1, 'X'), f"first get: {log.get('get1')}")
        check(log.get('putY') == (1, None), f"blocked put: {log.get('putY')}")
        check(
            log.get('get2') == (1, 'Y'),
            "Store: item 'Y' was stored at t=1 while a get was pending, but the "
            f"get was not granted in that step (get2={log.get('get2')}, "
            f"items={store.items}, pending gets={len(store.get_queue)})"
        )
        check(store.items == [], f"items left over: {store.items}")

    env.process(main())
    env.run(until=5)
    check('get2' in log, "Store scenario did not complete")


def scenario_container_put_side():
    env = Environment()
    tank = Container(env, capacity=10, init=8)
    log = {}

    def watch(name, event):
        yield event
        log[name] = env.now

    def main():
        blocked = tank.put(5)            # 8 + 5 > 10 -> has to wait
        env.process(watch('put5', blocked))
        yield env.timeout(1)
        first, second = tank.get(6), tank.get(4)   # 8-6 = 2 < 4 -> second waits
        env.process(watch('get6', first))
        env.process(watch('get4', second))
        yield env.timeout(1)
        check(log.get('get6') == 1, f"get(6): {log.get('get6')}")
        check(log.get('put5') == 1, f"blocked put(5): {log.get('put5')}")
        check(
            log.get('get4') == 1,
            "Container: level rose to 7 at t=1 with get(4) pending, "
            f"but it was not granted (level={tank.level})"
        )
        check(tank.level == 8 + 5 - 6 - 4, f"level {tank.level} != 3")

    env.process(main())
    env.run(until=5)
    check('get4' in log, "Container scenario did not complete")


def scenario_container_get_side():
    env = Environment()
    tank = Container(env, capacity=10, init=2)
    log = {}

    def watch(name, event):
        yield event
        log[name] = env.now

    def main():
        blocked = tank.get(5)            # 2 < 5 -> has to wait
        env.process(watch('get5', blocked))
        yield env.timeout(1)
        first, second = tank.put(6), tank.put(4)   # 2+6 = 8, 8+4 > 10 -> waits
        env.process(watch('put6', first))
        env.process(watch('put4', second))
        yield env.timeout(1)
        check(log.get('put6') == 1, f"put(6): {log.get('put6')}")
        check(log.get('get5') == 1, f"blocked get(5): {log.get('get5')}")
        check(
            log.get('put4') == 1,
            "Container: level dropped to 3 at t=1 with put(4) pending, "
            f"but it was not granted (level={tank.level})"
        )
        check(tank.level == 2 + 6 - 5 + 4, f"level {tank.level} != 7")

    env.process(main())
    env.run(until=5)
    check('put4' in log, "Container get-side scenario did not complete")


if __name__ == '__main__':
    scenario_store()
    scenario_container_put_side()
    scenario_container_get_side()
    if FAILURES:
        for failure in FAILURES:
            print("PROPERTY VIOLATION:", failure)
        raise AssertionError(f"C19 violated: {FAILURES[0]}")
    print("ok")
