"""
C19 demo: a Store never holds more items than its capacity.

Scenario A (Store, capacity 1): a consumer is already waiting on the empty
store when a producer issues two puts within the same time step. Only the first
put may be granted at once; the second has to wait until the consumer took
the first item.

Scenario B (FilterStore, capacity 2): the store is full of items that the
only pending get does not accept. A further put must stay pending.

Exits 0 if the capacity bound holds, fails with an AssertionError otherwise.
"""
from usim.py import Environment
from usim.py.resources.store import Store, FilterStore


def scenario_store():
    env = Environment()
    store = Store(env, capacity=1)
    seen = []
    received = []

    def consumer():
        item = yield store.get()
        received.append(item)
        yield env.timeout(5)
        item = yield store.get()
        received.append(item)

    def producer():
        yield env.timeout(1)
        first = store.put('a')
        second = store.put('b')
        seen.append((env.now, list(store.items), first.triggered, second.triggered))
        yield first
        yield second
        seen.append((env.now, list(store.items)))

    env.process(consumer())
    env.process(producer())
    env.run(until=20)
    return seen, received


def scenario_filter_store():
    env = Environment()
    store = FilterStore(env, capacity=2)
    seen = []

    def picky_consumer():
        yield store.get(lambda item: item == 'never')

    def producer():
        yield env.timeout(1)
        yield store.put(1)
        yield store.put(2)
        extra = store.put(3)
        yield env.timeout(1)
        seen.append((env.now, list(store.items), extra.triggered))

    env.process(picky_consumer())
    env.process(producer())
    env.run(until=20)
    return seen


def main():
    seen, received = scenario_store()
    print('Store      :', seen, received)
    now, items, first_ok, second_ok = seen[0]
    assert len(items) <= 1, f'Store(capacity=1) holds {items} at t={now}'
    assert first_ok and not second_ok, 'second put granted into a full store'
    assert received == ['a', 'b'], received

    seen = scenario_filter_store()
    print('FilterStore:', seen)
    now, items, extra_ok = seen[0]
    assert len(items) <= 2, f'FilterStore(capacity=2) holds {items} at t={now}'
    assert not extra_ok, 'put granted into a full FilterStore'


if __name__ == '__main__':
    main()
