"""
Demo for property C19: pending requests are granted in request order, and the
head request of a queue is granted within the time step in which it becomes
grantable.

Exits 0 when the property holds for the scenarios below, fails with an
AssertionError (exit code 1) otherwise. Uses only ``usim``.
"""
from usim.py import Environment
from usim.py.resources.resource import Resource
from usim.py.resources.container import Container
from usim.py.resources.store import Store


def resource_grant_order():
    """Two slots are released in one step while three requests are waiting"""
    env = Environment()
    resource = Resource(env, capacity=2)
    granted = []  # (name, time) in the order in which requests were granted

    def holder():
        first, second = resource.request(), resource.request()
        yield first & second
        yield env.timeout(1)
        # give back both slots in the same step, before anyone else runs
        rel_first, rel_second = resource.release(first), resource.release(second)
        yield rel_first & rel_second

    def waiter(name):
        with resource.request() as request:
            yield request
            granted.append((name, env.now))
            yield env.timeout(10)

    env.process(holder())
    for name in ('w0', 'w1', 'w2'):
        env.process(waiter(name))
    env.run()
    print('Resource grants :', granted)
    assert len(resource.users) <= resource.capacity
    assert [name for name, _ in granted] == ['w0', 'w1', 'w2'], \
        f"requests not granted in request order: {granted}"
    assert granted == [('w0', 1), ('w1', 1), ('w2', 11)], \
        f"requests not granted as soon as possible: {granted}"


def container_head_granted():
    """One large get makes room for both of two waiting puts"""
    env = Environment()
    container = Container(env, capacity=2, init=2)
    observed = {}

    def scenario():
        put_a, put_b = container.put(1), container.put(1)
        yield env.timeout(1)
        assert not put_a.triggered and not put_b.triggered
        yield container.get(2)
        # let the rest of the time step play out
        yield env.timeout(0)
        yield env.timeout(0)
        observed['now'] = env.now
        observed['puts'] = put_a.triggered, put_b.triggered
        observed['level'] = container.level
        observed['queued'] = len(container.put_queue)

    env.process(scenario())
    env.run()
    print('Container state :', observed)
    assert observed['now'] == 1
    assert observed['puts'] == (True, True), \
        f"grantable put still pending at end of step: {observed}"
    assert observed['level'] == 2 and observed['queued'] == 0, \
        f"level != initial + granted puts - granted gets: {observed}"


def store_fifo():
    """Two gets in one step make room while three puts are waiting"""
    env = Environment()
    store = Store(env, capacity=2)
    received = []

    def scenario():
        puts = [store.put(item) for item in 'abcde']
        yield env.timeout(1)
        assert [put.triggered for put in puts] == [True, True, False, False, False]
        get_a, get_b = store.get(), store.get()
        received.append((yield get_a))
        received.append((yield get_b))
        while len(received) < 5:
            received.append((yield store.get()))

    env.process(scenario())
    env.run()
    print('Store hands out :', received)
    assert received == list('abcde'), f"items not handed out in FIFO order: {received}"


if __name__ == '__main__':
    resource_grant_order()
    container_head_granted()
    store_fifo()
    print('OK')
