"""C11 scenario family: one producer, several consumers iterating a Channel (fixed pseudo-random timing): every consumer
that subscribed before the first put sees every message once, in order; after close iteration ends."""
import random, sys
import usim
from usim import Scope, time
from usim import Channel

def run_one(seed):
    rnd = random.Random(seed)
    n_items = rnd.randint(1, 7); n_cons = rnd.randint(1, 4)
    seen = [[] for _ in range(n_cons)]; errors = []
    async def producer(ch):
        await (time + 1)
        for k in range(n_items):
            if rnd.random() < 0.5:
                await (time + rnd.choice([0, 1]))
            await ch.put(k)
        await ch.close()
    async def consumer(ch, i):
        async for msg in ch:
            seen[i].append(msg)
            if rnd.random() < 0.3:
                await (time + 1)
    async def main():
        ch = Channel()
        async with Scope() as scope:
            for i in range(n_cons):
                scope.do(consumer(ch, i))
            scope.do(producer(ch))
    usim.run(main())
    for i in range(n_cons):
        if seen[i] != list(range(n_items)):
            errors.append("seed %d: consumer %d saw %r of %d messages" % (seed, i, seen[i], n_items))
    return errors

bad = []
for seed in range(40):
    bad += run_one(seed)
if bad:
    print("VIOLATION:", bad[0]); sys.exit(1)
sys.exit(0)
