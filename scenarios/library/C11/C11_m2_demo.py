"""
C11 demo 2: after ``close``, messages that were already put (pending for a
consumer) must still be delivered before iteration ends -- also when the put
and the close happen back-to-back from different tasks, before the idle
consumer had a chance to run.
"""
import sys
from usim import run, time, Scope, Channel, StreamClosed


async def main():
    channel = Channel()
    received = {'a': [], 'b': []}
    finished = []

    async def consume(name):
        async for msg in channel:
            received[name].append(msg)
        finished.append(name)

    async def produce(msg, at):
        await (time == at)
        await channel.put(msg)

    async def closer(at):
        await (time == at)
        await channel.close()

    async with Scope() as scope:
        scope.do(consume('a'))
        scope.do(consume('b'))
        # producer and closer wake in the same time step; the closer is
        # already queued when the producer's put wakes the idle consumers
        scope.do(produce('early', 1))
        scope.do(produce('last', 5))
        scope.do(closer(5))

    assert channel.closed
    assert sorted(finished) == ['a', 'b'], \
        "iteration must end after close, finished=%r" % (finished,)
    for name, got in received.items():
        assert got == ['early', 'last'], \
            "consumer %r must receive the message pending at close " \
            "(expected ['early', 'last']), got %r" % (name, got)
    try:
        await channel
    except StreamClosed:
        pass
    else:
        raise AssertionError('waiting on closed channel must raise StreamClosed')


if __name__ == '__main__':
    run(main(), till=100)
    print('ok')
    sys.exit(0)
