"""
C11 demo 1: a single ``await channel`` must return the FIRST message put
after it started waiting -- even if several producers put in the same
activation window, before the waiter gets to run again.
"""
import sys
from usim import run, time, Scope, Channel


async def main():
    channel = Channel()
    single = []
    streamed = []

    async def wait_one():
        single.append(await channel)

    async def stream_all():
        async for msg in channel:
            streamed.append(msg)

    async def produce(msg, at):
        await (time == at)
        await channel.put(msg)

    async with Scope() as scope:
        scope.do(wait_one())
        scope.do(stream_all())
        # three producers wake in the same time step, queued *ahead* of the
        # consumers' wake-ups: all three put before any consumer resumes
        scope.do(produce('first', 5))
        scope.do(produce('second', 5))
        scope.do(produce('third', 5))
        await (time == 10)
        await channel.close()

    assert streamed == ['first', 'second', 'third'], \
        "iterating consumer must see all messages in order, got %r" % (streamed,)
    assert single == ['first'], \
        "`await channel` must return the first message put after it " \
        "started waiting ('first'), got %r" % (single,)


if __name__ == '__main__':
    run(main(), till=100)
    print('ok')
    sys.exit(0)
