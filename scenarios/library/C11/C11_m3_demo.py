"""
C11 demo: a consumer that leaves must not disturb the other consumers.

One activity iterates over a Channel and, upon seeing a 'header' message,
additionally waits for the next message with a plain ``await channel``
while its iteration is still live (a nested, short-lived second consumer).
The iteration is a consumer subscribed from the start, so it must still
receive *every* message exactly once and in order, regardless of the
short-lived ``await channel`` consumer coming and going.
"""
import signal
import sys

from usim import run, time, Scope, Channel

signal.alarm(15)  # a hang must not block: die with SIGALRM (non-zero exit)

MESSAGES = ['header', 'body', 'tail-1', 'tail-2']


async def producer(chan: Channel):
    for msg in MESSAGES:
        await (time + 1)
        await chan.put(msg)
    await (time + 1)
    await chan.close()


async def framed_reader(chan: Channel, iterated: list, direct: list):
    async for msg in chan:
        iterated.append(msg)
        if msg == 'header':
            # nested one-shot consumer on the same channel
            direct.append(await chan)


async def observer(chan: Channel, iterated: list):
    async for msg in chan:
        iterated.append(msg)


async def main(result: dict):
    chan = Channel()
    result['iterated'], result['direct'], result['observer'] = [], [], []
    async with Scope() as scope:
        scope.do(framed_reader(chan, result['iterated'], result['direct']))
        scope.do(observer(chan, result['observer']))
        scope.do(producer(chan))


result = {}
error = None
try:
    run(main(result))
except BaseException as err:  # noqa: B902
    error = err

print('iterated:', result.get('iterated'))
print('direct  :', result.get('direct'))
print('observer:', result.get('observer'))
print('error   :', repr(error))

assert result.get('observer') == MESSAGES, \
    "independent observer did not see every message: %r" % result.get('observer')
assert result.get('direct') == ['body'], \
    "`await channel` did not return the first message put after it started " \
    "waiting: %r" % result.get('direct')
assert result.get('iterated') == MESSAGES, \
    "iterating consumer lost messages after a nested `await channel` consumer " \
    "left: got %r, expected %r" % (result.get('iterated'), MESSAGES)
assert error is None, "simulation failed: %r" % error
print('OK')
sys.exit(0)
