"""
C07 demo 1: when an until-scope fires, *all* of its children are closed --
including the children of a child that is itself parked at the end of its
own ``Scope`` block, waiting for those grand-children to finish.

Run as:  PYTHONPATH=<tree> timeout 20 /venv/bin/python demo.py
"""
import sys
from usim import run, time, until, Scope

log = []


async def worker(name, period):
    """grand-child: ticks well past the deadline, recording when it is executed"""
    for _ in range(8):
        await (time + period)
        log.append((name, time.now))


async def supervisor():
    """child: launches workers, then sits in Scope.__aexit__ awaiting them"""
    async with Scope() as scope:
        scope.do(worker('a', 3))
        scope.do(worker('b', 4))
    log.append(('supervisor-exit', time.now))  # only reached at t=32


async def direct_until():
    async with until(time + 10) as scope:
        scope.do(supervisor())
        await (time + 100)
        log.append(('body-resumed', time.now))
    log.append(('until-exit', time.now))
    # keep the simulation alive long enough to see any survivors
    await (time + 30)
    log.append(('end', time.now))


def check(label, events, deadline):
    late = [e for e in events if e[1] > deadline and e[0] in ('a', 'b')]
    assert not late, (
        "%s: grand-children kept running after the until-scope fired at %s: %r"
        % (label, deadline, late)
    )


def main():
    # 1. plain until(delay) block
    log.clear()
    run(direct_until())
    assert ('until-exit', 10) in log, "until block did not end at t=10: %r" % log
    assert ('body-resumed', 100) not in log, "body was not abandoned: %r" % log
    assert ('a', 9) in log and ('b', 8) in log, "workers never ran: %r" % log
    check("until(time + 10)", log, 10)
    assert log[-1] == ('end', 40), log

    # 2. run(..., till=T) must execute nothing later than T
    log.clear()
    run(supervisor(), till=10)
    assert ('a', 9) in log and ('b', 8) in log, "workers never ran: %r" % log
    check("run(till=10)", log, 10)
    print("ok")


if __name__ == "__main__":
    try:
        main()
    except AssertionError as err:
        print("FAIL:", err)
        sys.exit(1)
