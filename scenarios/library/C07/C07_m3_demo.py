"""
C07 demo: an ``until`` block must end *without raising* when its notification
fires while the block is still active -- also when the notification fires in
the very time step in which the body has just finished and the scope is in the
middle of shutting down (announcing "body done" / waiting for its children).

Exit code 0: property holds.  Non-zero (AssertionError): property broken.
"""
import signal
import sys

from usim import run, time, until, eternity, Flag, Scope

signal.alarm(20)  # a hang must not block the caller

log = []


async def child(name, delay):
    try:
        await (time + delay)
        log.append((name, 'finished', time.now))
    except BaseException:
        try:
            now = time.now
        except RuntimeError:  # leaked beyond the end of the simulation
            now = 'after end of simulation'
        log.append((name, 'closed', now))
        raise


async def body_done_at_deadline_date():
    """trigger (time == 5) and end of body (time + 5) coincide"""
    try:
        async with until(time == 5) as scope:
            scope.do(child('date-child', 20))
            await (time + 5)
    except BaseException as err:  # noqa
        log.append(('date', 'RAISED %r' % (err,), time.now))
        return
    log.append(('date', 'ended', time.now))
    await (time + 1)
    log.append(('date', 'continued', time.now))


async def body_done_at_deadline_delay():
    """same with a relative delay as the notification"""
    try:
        async with until(time + 7) as scope:
            scope.do(child('delay-child', 20))
            await (time + 7)
    except BaseException as err:  # noqa
        log.append(('delay', 'RAISED %r' % (err,), time.now))
        return
    log.append(('delay', 'ended', time.now))
    await (time + 1)
    log.append(('delay', 'continued', time.now))


async def body_done_when_flag_set(flag: Flag):
    """the flag is set by someone else in the step in which the body finishes"""
    try:
        async with until(flag) as scope:
            scope.do(child('flag-child', 20))
            await (time + 3)
    except BaseException as err:  # noqa
        log.append(('flag', 'RAISED %r' % (err,), time.now))
        return
    log.append(('flag', 'ended', time.now))
    await (time + 1)
    log.append(('flag', 'continued', time.now))


async def set_flag(flag: Flag):
    await (time + 3)
    await flag.set()


async def nested_equal_deadlines():
    """nested until-scopes with equal deadlines, bodies done at the deadline"""
    try:
        async with until(time == 9) as outer:
            outer.do(child('outer-child', 20))
            async with until(time == 9) as inner:
                inner.do(child('inner-child', 20))
                await (time + 9)
            log.append(('nested', 'inner ended', time.now))
    except BaseException as err:  # noqa
        log.append(('nested', 'RAISED %r' % (err,), time.now))
        return
    log.append(('nested', 'ended', time.now))
    await (time + 1)
    log.append(('nested', 'continued', time.now))


async def main():
    flag = Flag()
    async with Scope() as scope:
        scope.do(body_done_at_deadline_date())
        scope.do(body_done_at_deadline_delay())
        scope.do(set_flag(flag))
        scope.do(body_done_when_flag_set(flag))
        scope.do(nested_equal_deadlines())


try:
    run(main())
except BaseException as err:  # noqa
    log.append(('run', 'RAISED %r' % (err,), None))

for entry in log:
    print(entry)

raised = [entry for entry in log if entry[1].startswith('RAISED')]
assert not raised, \
    "C07 violated: until-block raised instead of ending silently: %r" % (raised,)

expected = {
    ('date', 'ended', 5), ('date', 'continued', 6), ('date-child', 'closed', 5),
    ('delay', 'ended', 7), ('delay', 'continued', 8), ('delay-child', 'closed', 7),
    ('flag', 'ended', 3), ('flag', 'continued', 4), ('flag-child', 'closed', 3),
    ('nested', 'ended', 9), ('nested', 'continued', 10),
    ('outer-child', 'closed', 9), ('inner-child', 'closed', 9),
}
missing = expected - set(log)
assert not missing, \
    "C07 violated: until-block did not end at trigger time: missing %r" % (missing,)
finished = [entry for entry in log if entry[1] == 'finished']
assert not finished, \
    "C07 violated: children ran past the trigger: %r" % (finished,)
print('OK')
sys.exit(0)
