"""
C04 demo: a child that is being torn down by its scope tries to spawn a
follow-up task into that scope from its cleanup handler (``finally``).
The scope is ending: the spawn must be refused with ``ScopeClosed``, the payload
must be discarded (closed), and no code of it may ever run - in particular
not after the ``async with`` block has been left.

Run as:  PYTHONPATH=<tree> timeout 20 /venv/bin/python demo.py
"""
import inspect
import sys

from usim import run, Scope, time, until, eternity
from usim import Concurrent  # noqa: F401  (make sure the public API is there)
from usim._primitives.context import ScopeClosed


def scenario(kind):
    state = {'exited': False, 'refused': None, 'payload': None, 'child': None}
    log = []

    async def report():
        # follow-up work that must never be executed
        log.append(('report-start', time.now, state['exited']))
        await (time + 1)
        log.append(('report-end', time.now, state['exited']))

    async def worker(scope):
        try:
            await eternity
        finally:
            # we are force-closed by the scope; try to hand off some work
            payload = state['payload'] = report()
            try:
                state['child'] = scope.do(payload)
            except ScopeClosed:
                state['refused'] = True
            else:
                state['refused'] = False

    async def main():
        if kind == 'body-fails':
            # non-volatile child, closed because the body raises
            try:
                async with Scope() as scope:
                    scope.do(worker(scope))
                    await (time + 2)
                    raise KeyError('body failure')
            except KeyError:
                pass
        elif kind == 'volatile-normal-exit':
            # volatile child, closed at the regular end of the scope
            async with Scope() as scope:
                scope.do(worker(scope), volatile=True)
                scope.do(time + 2)
        elif kind == 'until-notification':
            # non-volatile child, closed because the notification strikes
            async with until(time == 2) as scope:
                scope.do(worker(scope))
        state['exited'] = True
        assert time.now == 2, "scope exited at %s" % time.now
        assert state['refused'] is not None, "worker was not closed with its scope"
        await (time + 20)
        assert not log, (
            "[%s] task spawned into an ending scope ran (entries are "
            "(what, time, scope-already-exited)): %r" % (kind, log)
        )
        assert state['refused'], (
            "[%s] spawning into an ending scope was not refused" % kind
        )
        assert inspect.getcoroutinestate(state['payload']) == inspect.CORO_CLOSED, (
            "[%s] payload of refused spawn was not discarded" % kind
        )

    run(main())


def main():
    for kind in ('body-fails', 'volatile-normal-exit', 'until-notification'):
        scenario(kind)
    print("ok")


if __name__ == "__main__":
    try:
        main()
    except AssertionError as err:
        print("PROPERTY VIOLATED:", err)
        sys.exit(1)
