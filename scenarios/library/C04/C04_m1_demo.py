"""
C04 demo: the owner of a scope is *closed* (GeneratorExit, not an interrupt)
while that scope has already left its body and is gracefully waiting for its
children. The children must be closed together with the owner and must not run
any code afterwards.

Run as:  PYTHONPATH=<tree> timeout 20 /venv/bin/python demo.py
"""
import sys

from usim import run, Scope, time, until


def scenario(make_outer, owner_volatile):
    log = []
    tasks = {}

    async def worker(name):
        log.append((name, 'start', time.now))
        await (time + 10)
        # must never be reached: the owning scope is torn down at time 5
        log.append((name, 'RAN AFTER SCOPE EXIT', time.now))

    async def owner():
        async with Scope() as inner:
            tasks['w1'] = inner.do(worker('w1'))
            tasks['w2'] = inner.do(worker('w2'))
            await (time + 1)
            # body is done at time 1; the scope now waits for w1, w2 (until 10)
        log.append(('owner', 'RESUMED AFTER INNER SCOPE', time.now))

    async def main():
        async with make_outer() as outer:
            tasks['owner'] = outer.do(owner(), volatile=owner_volatile)
            await (time + 5)
            if not owner_volatile:
                await (time + 100)  # interrupted by the notification at 5
        log.append(('main', 'outer-exit', time.now))
        exit_time = time.now
        # at the exit of the outer scope, everything below it is done
        for name, task in tasks.items():
            assert task.done, (
                "task %r is not done although its scope has exited" % name
            )
        await (time + 50)
        assert exit_time == 5, "outer scope exited at %s" % exit_time
        late = [entry for entry in log if entry[2] > exit_time]
        assert not late, "code of scoped tasks ran after scope exit: %r" % late

    run(main())
    return log


def main():
    # 1) owner is a volatile child, closed at the regular end of the outer scope
    scenario(Scope, owner_volatile=True)
    # 2) owner is a regular child, closed when the `until` notification strikes
    scenario(lambda: until(time == 5), owner_volatile=False)
    print("ok")


if __name__ == "__main__":
    try:
        main()
    except AssertionError as err:
        print("PROPERTY VIOLATED:", err)
        sys.exit(1)
