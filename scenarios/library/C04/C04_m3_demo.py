"""
C04 demo: no task outlives its scope.

A child that has been individually cancelled (``task.cancel()``) but has not
yet finished - the CancelTask is still queued for this time step, or the child
is doing graceful ``await``-ing cleanup in response to it - must still be
terminated when its scope is abandoned (exception in the body / ``until``
notification).  After the ``async with`` block is left, the child must be done
and none of its code may run anymore.

Run as:  PYTHONPATH=<tree> timeout 20 /venv/bin/python demo.py
"""
import signal
import sys

from usim import run, Scope, until, time, eternity, Flag, CancelTask


def _hang(*_):
    print("FAIL: demo timed out (simulation hang)")
    sys.exit(3)


signal.signal(signal.SIGALRM, _hang)
signal.alarm(15)

failures = []


def check(cond, message):
    if not cond:
        failures.append(message)
        print("FAIL:", message)


# --- scenario 1: cancel() and body failure in the same activation -----------
async def scenario_same_turn():
    log = []

    async def worker():
        try:
            await eternity
        finally:
            log.append(('worker-exit', time.now))

    task = None
    try:
        async with Scope() as scope:
            task = scope.do(worker())
            await (time + 1)
            task.cancel()
            raise KeyError('abandon scope')
    except KeyError:
        pass
    log.append(('scope-left', time.now))
    done_at_exit = bool(task.done)
    await (time + 10)
    check(done_at_exit,
          "scenario 1: child not done when control left the Scope "
          "(cancel + body exception in the same activation)")
    check(log.index(('scope-left', 1)) == len(log) - 1,
          "scenario 1: child code ran after its scope was left: %r" % (log,))


# --- scenario 2: scope abandoned while child does graceful cancel cleanup ----
async def scenario_graceful_cleanup():
    log = []
    stop = Flag()
    t0 = time.now

    async def worker():
        try:
            await eternity
        except CancelTask:
            # graceful, asynchronous cleanup is allowed on cancellation
            log.append(('cleanup-start', time.now - t0))
            await (time + 5)
            log.append(('cleanup-end', time.now - t0))
            raise

    async def trigger():
        await (time + 2)
        await stop.set()

    task = None
    async with Scope() as outer:
        outer.do(trigger())
        async with until(stop) as scope:
            task = scope.do(worker())
            await (time + 1)
            task.cancel()
            await eternity
        left_at = time.now - t0
        log.append(('scope-left', left_at))
        done_at_exit = bool(task.done)
        await (time + 10)
    check(left_at == 2, "scenario 2: until-scope left at %s, expected 2" % left_at)
    check(done_at_exit,
          "scenario 2: child not done when control left the until-scope "
          "(child was in graceful cleanup of an earlier cancel)")
    check(log[-1] == ('scope-left', 2),
          "scenario 2: child code ran after its scope was left: %r" % (log,))


async def main():
    await scenario_same_turn()
    await scenario_graceful_cleanup()


try:
    run(main(), till=200)
except BaseException as err:  # the simulation itself must not blow up either
    check(False, "simulation raised %r" % (err,))

if failures:
    print("%d check(s) failed" % len(failures))
    sys.exit(1)
print("OK: all tasks were done when their scope was left")
sys.exit(0)
