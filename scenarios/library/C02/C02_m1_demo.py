"""
C02 demo: the trace must be a function of the program alone - it must not
depend on memory layout / unrelated allocations.

A scope launches several *volatile* background activities.  When the scope
ends they are torn down; each one logs from its ``finally`` block, and a
watcher per activity logs when it observes ``task.done``.  The order of these
observable events must be the order in which the activities were launched,
and it must be the same no matter which unrelated objects were allocated
while setting up the program.

Exit code 0: property holds.  Non-zero: property violated.
"""
import random

from usim import run, time, Scope, eternity

N = 24


def simulate(perturbation_seed):
    rng = random.Random(perturbation_seed)
    junk = []          # unrelated allocations that only shift memory layout
    trace = []

    async def background(name):
        try:
            await eternity
        finally:
            trace.append(('closed', name, time.now))

    async def watcher(name, task):
        await task.done
        trace.append(('seen', name, time.now))

    async def main():
        async with Scope() as outer:
            async with Scope() as inner:
                for name in range(N):
                    junk.append([object() for _ in range(rng.randrange(0, 7))])
                    junk.append(bytearray(rng.randrange(16, 200)))
                    task = inner.do(background(name), volatile=True)
                    outer.do(watcher(name, task))
                # let every background activity start and suspend
                await (time + 1)
            # <- inner scope ended: volatile children have been closed

    run(main())
    return trace


def check(condition, message):
    if not condition:
        raise AssertionError(message)


def main():
    expected = (
        [('closed', name, 1) for name in range(N)]
        + [('seen', name, 1) for name in range(N)]
    )
    traces = {}
    for seed in range(6):
        traces[seed] = simulate(seed)
    for seed, trace in traces.items():
        closed = [name for kind, name, _ in trace if kind == 'closed']
        seen = [name for kind, name, _ in trace if kind == 'seen']
        check(
            closed == list(range(N)),
            'volatile activities were not torn down in launch order '
            '(perturbation %d): %r' % (seed, closed)
        )
        check(
            seen == list(range(N)),
            'watchers did not observe completion in launch order '
            '(perturbation %d): %r' % (seed, seen)
        )
        check(
            trace == expected,
            'unexpected trace (perturbation %d): %r' % (seed, trace)
        )
    check(
        len({tuple(t) for t in traces.values()}) == 1,
        'trace depends on unrelated allocations'
    )
    print('OK')


if __name__ == '__main__':
    main()
