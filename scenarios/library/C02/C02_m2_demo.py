"""
C02 demo: the trace must not depend on the wait-queue backend (USIM_WAITQUEUE).

A handful of activities sleep for distinct delays which are requested in a
non-monotonic order.  The observable trace (who wakes at which time, in which
order) is recorded under the default heap backend and under the SD backend;
both must be identical and must be ordered by time.

Exit code 0: property holds.  Non-zero: property violated.
"""
import os
import subprocess
import sys

DELAYS = [6, 2, 3, 5, 8, 7]


def simulate():
    from usim import run, time, Scope

    trace = []

    async def sleeper(name, delay):
        await (time + delay)
        trace.append((name, time.now))
        # second leg: everyone re-arms with a delay that depends on its name,
        # so further dates are pushed while others are still pending
        await (time + (1 + name % 3))
        trace.append((name, time.now))

    async def main():
        async with Scope() as scope:
            for name, delay in enumerate(DELAYS):
                scope.do(sleeper(name, delay))

    run(main())
    return trace


def child():
    print(repr(simulate()))


def check(condition, message):
    if not condition:
        raise AssertionError(message)


def trace_for(backend):
    env = dict(os.environ)
    if backend:
        env['USIM_WAITQUEUE'] = backend
    else:
        env.pop('USIM_WAITQUEUE', None)
    out = subprocess.run(
        [sys.executable, os.path.abspath(__file__), '--child'],
        env=env, stdout=subprocess.PIPE, stderr=subprocess.PIPE,
        timeout=15, universal_newlines=True,
    )
    check(out.returncode == 0, 'simulation crashed (%r backend):\n%s' % (
        backend or 'heap', out.stderr))
    return eval(out.stdout)


def main():
    heap = trace_for('')
    sd = trace_for('SD')
    print('heap:', heap)
    print('SD  :', sd)
    times = [when for _, when in heap]
    check(
        times == sorted(times),
        'heap backend: simulated time is not monotonic: %r' % (times,)
    )
    check(
        heap == sd,
        'trace depends on USIM_WAITQUEUE backend:\n heap=%r\n SD  =%r' % (heap, sd)
    )
    expected = sorted(
        [(n, d) for n, d in enumerate(DELAYS)]
        + [(n, d + 1 + n % 3) for n, d in enumerate(DELAYS)],
        key=lambda item: item[1],
    )
    check(
        sorted(heap, key=lambda i: i[1]) == heap
        and sorted(map(tuple, heap)) == sorted(expected),
        'unexpected trace %r' % (heap,)
    )
    print('OK')


if __name__ == '__main__':
    if '--child' in sys.argv:
        child()
    else:
        main()
