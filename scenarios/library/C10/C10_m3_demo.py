"""
C10 demo: a Queue receiver that is forcefully closed (end of its owning scope)
at the suspension point where it has just been handed the queue's read mutex
must not prevent other receivers from getting the remaining items.

Run as:  PYTHONPATH=<tree> timeout 20 /venv/bin/python demo.py
"""
import os
import sys
from usim import run, Scope, Queue, Flag, time, until, instant, eternity

received = []
state = {}


async def consumer(name, queue):
    async for item in queue:
        received.append((name, item, time.now))


async def short_lived_group(queue, stop):
    # a group of receivers that is shut down as a whole once `stop` is set;
    # its children are closed at whatever suspension point they are in
    async with until(stop) as scope:
        scope.do(consumer('V', queue))
        await eternity


async def producer(queue):
    await (time == 10)
    await queue.put(1)
    await (time == 20)
    await queue.put(2)
    await queue.put(3)
    await (time == 30)
    await queue.close()


async def stopper(stop):
    await (time == 10)
    await stop.set()


async def main():
    queue, stop = Queue(), Flag()
    state['queue'] = queue
    async with Scope() as scope:
        # A waits for an item (holding the read mutex) ...
        scope.do(consumer('A', queue))
        await instant
        # ... V queues for the read mutex behind A ...
        scope.do(short_lived_group(queue, stop))
        await instant
        await instant
        # ... and C queues behind V
        scope.do(consumer('C', queue))
        await instant
        # at time 10: item 1 is put (A wakes), then `stop` is set; A takes item 1
        # and hands the mutex to V, then V's scope ends and V is closed before it
        # could run as the designated mutex owner
        scope.do(producer(queue))
        scope.do(stopper(stop))
    state['finished'] = time.now


def check():
    try:
        run(main())
    except BaseException as err:  # noqa
        state['error'] = err
    items = [item for _, item, _ in received]
    print('received:', received)
    print('state   :', {k: v for k, v in state.items() if k != 'queue'})
    assert 'error' not in state, f"simulation failed: {state['error']!r}"
    assert items == [1, 2, 3], (
        f"items put into the Queue were lost/reordered: put [1, 2, 3], "
        f"received {items}; still buffered: {list(state['queue']._buffer)}"
    )
    assert 'finished' in state, (
        "receivers never finished: Queue was closed but some receiver is stuck"
    )
    assert not any(name == 'V' for name, _, _ in received), \
        "closed receiver V must not have received anything"


if __name__ == '__main__':
    try:
        check()
    except AssertionError as err:
        print('FAIL:', err)
        sys.stdout.flush()
        # skip interpreter teardown noise from the stuck coroutines
        os._exit(1)
    print('OK')
