"""C10 scenario family: receivers that are cancelled while waiting (fixed seeds): no item is lost or duplicated --
every item put is received by exactly one of the surviving receivers or is still buffered, in put order."""
import random, sys
import usim
from usim import Scope, time, Queue, StreamClosed

def run_one(seed):
    rnd = random.Random(seed)
    n_items = rnd.randint(1, 8); n_cons = rnd.randint(2, 5)
    got = []; errors = []
    async def producer(q):
        for k in range(n_items):
            await (time + rnd.choice([1, 2]))
            await q.put(k)
        await (time + 5)
        await q.close()
    async def consumer(q):
        try:
            while True:
                got.append(await q)
        except StreamClosed:
            pass
    async def killer(task, at):
        await (time + at)
        task.cancel()
    async def main():
        q = Queue()
        async with Scope() as scope:
            cons = [scope.do(consumer(q)) for _ in range(n_cons)]
            for t in cons[1:]:
                if rnd.random() < 0.7:
                    scope.do(killer(t, rnd.choice([0, 1, 2, 3, 4])))
            scope.do(producer(q))
    usim.run(main())
    if got != list(range(n_items)):
        errors.append("seed %d: received %r of items 0..%d" % (seed, got, n_items - 1))
    return errors

bad = []
for seed in range(60):
    bad += run_one(seed)
if bad:
    print("VIOLATION:", bad[0]); sys.exit(1)
sys.exit(0)
