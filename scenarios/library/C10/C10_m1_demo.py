"""
C10 demo: a consumer that is cancelled / interrupted while it is receiving
from a Queue that already holds items must not lose (or duplicate) an item.

A consumer reads back-to-back from a pre-filled queue. A controller cancels it
(or an ``until`` interrupts it) after a varying number of turns. Whatever the
first consumer did not *return* must still be in the queue for a second one.

Run as:  PYTHONPATH=<tree> timeout 20 /venv/bin/python demo.py
"""
import sys

from usim import run, Scope, Queue, Flag, instant, until, StreamClosed

N = 6
FAILURES = []


async def drain(queue, into):
    try:
        while True:
            into.append(await queue)
    except StreamClosed:
        pass


async def scenario_cancel(turns: int):
    """cancel the consumer task after ``turns`` postponements of the controller"""
    queue = Queue()
    for i in range(N):
        await queue.put(i)
    first, second = [], []

    async def consumer():
        while True:
            first.append(await queue)

    async with Scope() as scope:
        task = scope.do(consumer())
        for _ in range(turns):
            await instant
        task.cancel()
        await instant
        await instant
        await queue.close()
        await drain(queue, second)
    check('cancel after %d turns' % turns, first, second)


async def scenario_until(turns: int):
    """interrupt the consumer via ``until(flag)`` after ``turns`` postponements"""
    queue = Queue()
    for i in range(N):
        await queue.put(i)
    first, second = [], []
    stop = Flag()

    async def consumer():
        async with until(stop):
            while True:
                first.append(await queue)

    async with Scope() as scope:
        scope.do(consumer())
        for _ in range(turns):
            await instant
        await stop.set()
        await instant
        await instant
        await queue.close()
        await drain(queue, second)
    check('until-interrupt after %d turns' % turns, first, second)


def check(label, first, second):
    received = first + second
    expected = list(range(N))
    if received != expected:
        FAILURES.append(
            '%s: put %r but consumers received %r + %r (lost %r, duplicated %r)' % (
                label, expected, first, second,
                sorted(set(expected) - set(received)),
                sorted(x for x in set(received) if received.count(x) > 1),
            )
        )


async def main():
    for turns in range(1, N + 3):
        await scenario_cancel(turns)
        await scenario_until(turns)


run(main())
if FAILURES:
    print('C10 VIOLATED: Queue lost/duplicated/reordered items', file=sys.stderr)
    for failure in FAILURES:
        print('  ' + failure, file=sys.stderr)
    raise AssertionError(FAILURES[0])
print('ok: every item received exactly once, in order')
