"""
C10 demo: items that were accepted by ``put`` before ``close`` must still be
received; a receiver may only see StreamClosed once the buffer is drained.

A receiver is blocked on an empty Queue. In one and the same time step a
producer puts items and a *separate* activity closes the queue, in every
relative order of the two. Every item whose ``put`` did not raise must be
delivered to the waiting receiver before it sees StreamClosed.

Run as:  PYTHONPATH=<tree> timeout 20 /venv/bin/python demo.py
"""
import sys

from usim import run, Scope, Queue, time, StreamClosed

FAILURES = []


async def scenario(label, order, use_iteration, n_items):
    """
    ``order`` gives the start order of producer 'P' and closer 'C';
    both wake up in the same time step while the receiver is blocked.
    """
    queue = Queue()
    received, accepted, leftover = [], [], []

    async def receiver():
        if use_iteration:
            async for item in queue:
                received.append(item)
        else:
            try:
                while True:
                    received.append(await queue)
            except StreamClosed:
                pass

    async def producer():
        await (time + 10)
        for item in range(n_items):
            try:
                await queue.put(item)
            except StreamClosed:
                break
            else:
                accepted.append(item)

    async def closer():
        await (time + 10)
        await queue.close()

    async with Scope() as scope:
        scope.do(receiver())
        await (time + 1)  # receiver is now blocked on the empty queue
        for who in order:
            scope.do(producer() if who == 'P' else closer())
    # whatever is left behind was accepted but never delivered
    try:
        while True:
            leftover.append(await queue)
    except StreamClosed:
        pass
    if received != accepted or leftover:
        FAILURES.append(
            '%s: accepted %r, blocked receiver got %r before StreamClosed, '
            '%r left behind in the closed queue' % (
                label, accepted, received, leftover
            )
        )


async def main():
    for use_iteration in (False, True):
        for order in ('PC', 'CP'):
            for n_items in (1, 2, 3):
                label = 'order=%s %s items=%d' % (
                    order, 'async-for' if use_iteration else 'await', n_items
                )
                await scenario(label, order, use_iteration, n_items)


run(main())
if FAILURES:
    print('C10 VIOLATED: StreamClosed raised before buffered items were received',
          file=sys.stderr)
    for failure in FAILURES:
        print('  ' + failure, file=sys.stderr)
    raise AssertionError(FAILURES[0])
print('ok: all accepted items were received before StreamClosed')
