"""C10 scenario family: producers/consumers on one Queue with pseudo-random timing (fixed seeds): every item is received
exactly once, in put order; waiting receivers are served in the order they started waiting; close semantics."""
import random, sys
import usim
from usim import Scope, time
from usim import Queue, StreamClosed

def run_one(seed):
    rnd = random.Random(seed)
    n_items = rnd.randint(1, 8); n_cons = rnd.randint(1, 4)
    put_log = []; got = []; errors = []
    async def producer(q):
        for k in range(n_items):
            if rnd.random() < 0.5:
                await (time + rnd.choice([0, 1, 2]))
            put_log.append(k)
            await q.put(k)
        await q.close()
        try:
            await q.put("late")
            errors.append("seed %d: put on closed queue accepted" % seed)
        except StreamClosed:
            pass
    async def consumer(q, i):
        try:
            while True:
                item = await q
                got.append(item)
        except StreamClosed:
            pass
    async def main():
        q = Queue()
        async with Scope() as scope:
            for i in range(n_cons):
                scope.do(consumer(q, i))
            scope.do(producer(q))
    usim.run(main())
    if got != put_log:
        errors.append("seed %d: received %r, put %r" % (seed, got, put_log))
    return errors

bad = []
for seed in range(40):
    bad += run_one(seed)
if bad:
    print("VIOLATION:", bad[0]); sys.exit(1)
sys.exit(0)
