"""
C03 demo: an ``until(time == date)`` scope whose notification has fired
(its internal CancelScope signal is queued for the activity) but which is left
through an exception of the body *before* the signal is delivered.

The internal signal must be withdrawn when the scope is left; it must never hit
the activity after it left the scope, and `run()` must never end with it.
"""
import signal
import sys

import usim
from usim import run, time, until, Scope

signal.alarm(15)  # a hang must not block the caller

print('usim from', usim.__file__)


def guarded_run(label, *activities, **kwargs):
    """`run`, reporting whatever ends the simulation"""
    try:
        run(*activities, **kwargs)
    except BaseException as err:  # noqa: B902
        return err
    return None


# Scenario 1: the body fails at exactly the moment, after the moment has fired
trace_1 = []


async def racing_failure():
    try:
        async with until(time == 10):
            # resumes at 10 - in the same time step the moment triggers,
            # *after* the trigger has queued the scope's interrupt for us
            await (time + 10)
            trace_1.append(('body', time.now))
            raise KeyError('failure of the body itself')
    except KeyError:
        trace_1.append(('handled', time.now))
    # we have left the scope: nothing of it may reach us anymore
    await (time + 5)
    trace_1.append(('after', time.now))


# Scenario 2: the moment is "already true" on entry, body fails without suspending
trace_2 = []


async def already_true_failure():
    await (time + 3)
    try:
        async with until(time == 3):
            trace_2.append(('body', time.now))
            raise KeyError('failure of the body itself')
    except KeyError:
        trace_2.append(('handled', time.now))
    await (time + 5)
    trace_2.append(('after', time.now))


# Scenario 3: same as 1, but the activity is a child task of a scope
trace_3 = []


async def as_child():
    async with Scope() as scope:
        task = scope.do(racing_failure_child())
        await task
    trace_3.append(('parent', time.now))


async def racing_failure_child():
    await (time + 1)
    try:
        async with until(time == 7):
            await (time + 6)
            raise KeyError('failure of the body itself')
    except KeyError:
        trace_3.append(('handled', time.now))
    await (time + 5)
    trace_3.append(('after', time.now))


failures = []
for label, activity, trace, expected in (
    ('racing failure', racing_failure(), trace_1,
     [('body', 10), ('handled', 10), ('after', 15)]),
    ('already true', already_true_failure(), trace_2,
     [('body', 3), ('handled', 3), ('after', 8)]),
    ('child task', as_child(), trace_3,
     [('handled', 7), ('after', 12), ('parent', 12)]),
):
    outcome = guarded_run(label, activity)
    print(f'{label}: run() ended with {outcome!r}, trace={trace}')
    if outcome is not None:
        failures.append(
            f'{label}: run() of a valid program ended with {outcome!r}'
            ' (internal signal delivered after its scope was left)'
        )
    elif trace != expected:
        failures.append(f'{label}: trace {trace} != expected {expected}')

assert not failures, 'C03 violated:\n  ' + '\n  '.join(failures)
print('OK')
sys.exit(0)
