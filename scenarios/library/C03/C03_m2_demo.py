"""
C03 demo: an activity that is interrupted while suspended for a fixed time,
*exactly at* the date at which it would have resumed anyway.

``until(time + 10)`` is entered first, so at time 10 its interrupt is queued
before the wake-up of the third ``interval(5)`` step (which was scheduled at
time 5 for time 10 as well).  The interrupt ends the suspension; the kernel
must discard the now stale internal wake-up signal.  It must not be delivered
to the activity after it left the ``until`` block / the suspension.
"""
import sys
from usim import run, Scope, time, until, interval

log = []


async def ticker():
    async with until(time + 10):
        async for now in interval(5):
            log.append('tick %s' % now)
    log.append('left until @ %s' % time.now)
    # a completely unrelated wait; nobody may signal us here but the delay
    await (time + 3)
    log.append('ticker done @ %s' % time.now)


async def delayed_child():
    async def job():
        log.append('job must never start')

    # the scope times out at the very date at which the child would start
    async with until(time + 5) as scope:
        scope.do(job(), after=5)
    log.append('child scope closed @ %s' % time.now)
    await (time + 3)
    log.append('delayed_child done @ %s' % time.now)


def check(activity, expected):
    del log[:]
    try:
        run(activity)
    except BaseException as err:   # noqa
        print('log:', log)
        raise AssertionError(
            'run() of a valid program ended with kernel-internal %s: %r'
            % (type(err).__name__, err)
        )
    assert log == expected, log
    print('OK', log)


check(ticker(), ['tick 5', 'left until @ 10', 'ticker done @ 13'])
check(delayed_child(), ['child scope closed @ 5', 'delayed_child done @ 8'])
sys.exit(0)
