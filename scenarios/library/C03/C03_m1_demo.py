"""
C03 demo: a cancellation that races with the normal completion of its task.

``canceller`` and ``worker`` both sleep until time 5; ``canceller`` was
started first and thus resumes first.  It cancels ``worker`` -- which is
still suspended, i.e. running -- but ``worker``'s regular wake-up is already
queued *before* the cancellation signal.  ``worker`` therefore resumes and
finishes normally without reaching another break point.  The now stale
cancellation signal must be discarded by the kernel: ``run()`` has to end
normally, and nothing may ever be thrown into the finished activity.
"""
import sys
from usim import run, Scope, time

log = []


async def worker():
    await (time + 5)
    log.append('worker done @ %s' % time.now)
    return 42


async def main():
    async with Scope() as scope:
        async def canceller():
            await (time + 5)
            # worker is suspended in its delay; its wake-up for this very
            # time step is already scheduled right behind us
            log.append('cancel @ %s' % time.now)
            task.cancel('too late')
        # the canceller must wake *before* the worker at time 5
        scope.do(canceller())
        task = scope.do(worker())
    log.append('scope done @ %s' % time.now)
    # the worker finished on its own before the cancellation was delivered
    result = await task
    log.append('result %r' % (result,))
    await (time + 1)
    log.append('end @ %s' % time.now)


try:
    run(main())
except BaseException as err:   # noqa
    print('log:', log)
    raise AssertionError(
        'run() of a valid program failed with kernel-internal %s: %s'
        % (type(err).__name__, err)
    )
expected = [
    'cancel @ 5', 'worker done @ 5', 'scope done @ 5', 'result 42', 'end @ 6'
]
assert log == expected, log
print('OK', log)
sys.exit(0)
