"""
C15 demo: after a run() that contained a nested run(), the thread must see
no simulation any more (time.now raises), and the enclosing simulation must
have continued undisturbed after the nested run().
"""
import sys
import threading

from usim import run, time
from usim._core.handler import __USIM_STATE__

log = []


async def inner():
    assert time.now == 100, "nested simulation must start at its own start"
    await (time + 10)
    assert time.now == 110
    log.append(("inner", time.now))


async def outer():
    await (time + 5)
    assert time.now == 5
    run(inner(), start=100)          # nested simulation
    # enclosing simulation continues undisturbed
    assert time.now == 5, "nested run() disturbed enclosing clock: %r" % time.now
    await (time + 1)
    assert time.now == 6, "enclosing simulation did not continue: %r" % time.now
    log.append(("outer", time.now))


def no_simulation_visible(where):
    try:
        now = time.now
    except RuntimeError:
        pass
    else:
        raise AssertionError(
            "%s: thread still sees a simulation (time.now == %r)" % (where, now)
        )
    assert not __USIM_STATE__.is_active, "%s: state still active" % where


def scenario():
    no_simulation_visible("before any run")
    run(outer())
    assert log == [("inner", 110), ("outer", 6)], log
    no_simulation_visible("after run() containing a nested run()")
    # a plain run afterwards must still behave
    run()
    no_simulation_visible("after follow-up run()")


def main():
    failure = []

    def guarded():
        try:
            scenario()
        except BaseException as err:  # noqa
            failure.append(err)

    worker = threading.Thread(target=guarded, daemon=True)
    worker.start()
    worker.join(15)
    if worker.is_alive():
        print("FAIL: scenario hung")
        sys.exit(2)
    if failure:
        print("FAIL: %s: %s" % (type(failure[0]).__name__, failure[0]))
        sys.exit(1)
    print("OK")


if __name__ == "__main__":
    main()
