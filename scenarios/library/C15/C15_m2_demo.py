"""
C15 demo: simulations running concurrently in different real threads never
influence each other's clock or events, and a thread without a simulation
sees none (time.now raises) even while another thread is simulating.

Real threading.Event handshakes force the two simulations to overlap in a
fixed interleaving; every wait has a timeout so nothing can hang.
"""
import sys
import threading

from usim import run, time

WAIT = 5
errors = []


def wait(event, what):
    assert event.wait(WAIT), "handshake timed out waiting for %s" % what


def guarded(func):
    def wrapper():
        try:
            func()
        except BaseException as err:  # noqa
            errors.append("%s: %s: %s" % (func.__name__, type(err).__name__, err))
    return wrapper


def sees_no_simulation(who):
    try:
        now = time.now
    except RuntimeError:
        return
    raise AssertionError("%s sees a foreign simulation, time.now == %r" % (who, now))


# --- scenario 1: two overlapping simulations -------------------------------
a_started, b_started, a_stepped, b_stepped = (threading.Event() for _ in range(4))
trace_a, trace_b = [], []


async def sim_a():
    trace_a.append(time.now)
    a_started.set()
    wait(b_started, "B to start its simulation")
    trace_a.append(time.now)
    await (time + 1)
    trace_a.append(time.now)
    a_stepped.set()
    wait(b_stepped, "B to advance its clock")
    await (time + 1)
    trace_a.append(time.now)


async def sim_b():
    trace_b.append(time.now)
    b_started.set()
    wait(a_stepped, "A to advance its clock")
    trace_b.append(time.now)
    await (time + 5)
    trace_b.append(time.now)
    b_stepped.set()
    await (time + 5)
    trace_b.append(time.now)


@guarded
def thread_a():
    sees_no_simulation("thread A before run")
    run(sim_a(), start=0)
    sees_no_simulation("thread A after run")


@guarded
def thread_b():
    wait(a_started, "A to start its simulation")
    sees_no_simulation("thread B before run")
    run(sim_b(), start=1000)
    sees_no_simulation("thread B after run")


# --- scenario 2: a bystander thread only looks ---------------------------------
c_started, looked = threading.Event(), threading.Event()
trace_c = []


async def sim_c():
    trace_c.append(time.now)
    c_started.set()
    wait(looked, "bystander to look")
    trace_c.append(time.now)
    await (time + 2)
    trace_c.append(time.now)


@guarded
def thread_c():
    run(sim_c(), start=10)
    sees_no_simulation("thread C after run")


@guarded
def bystander():
    wait(c_started, "C to start its simulation")
    try:
        sees_no_simulation("bystander thread")
    finally:
        looked.set()


def run_threads(*targets):
    threads = [threading.Thread(target=t, daemon=True) for t in targets]
    for t in threads:
        t.start()
    for t in threads:
        t.join(3 * WAIT)
        if t.is_alive():
            errors.append("thread %s hung" % t.name)


def main():
    run_threads(thread_a, thread_b)
    if not errors:
        assert trace_a == [0, 0, 1, 2], "clock of simulation A disturbed: %r" % trace_a
        assert trace_b == [1000, 1000, 1005, 1010], \
            "clock of simulation B disturbed: %r" % trace_b
    run_threads(thread_c, bystander)
    if not errors:
        assert trace_c == [10, 10, 12], "clock of simulation C disturbed: %r" % trace_c
    if errors:
        print("FAIL:")
        for line in errors:
            print("  ", line)
        sys.exit(1)
    print("OK")


if __name__ == "__main__":
    main()
