"""
C14: interval() ticks on the fixed grid start + p, start + 2p, ... for every start time

A simulation started at a negative date (``run(..., start=-20)``) runs an
``interval(10)`` ticker: the grid is -10, 0, 10, 20, 30 - it passes through date 0.
Every tick must resume the body exactly on the grid and yield the current time,
whatever the body durations are (shorter than or equal to the period here).
"""
import signal
import sys

import usim
from usim import run, time, until, interval, delay, Scope

# a hang must not block: abort hard after 15 seconds of wall-clock time
signal.signal(signal.SIGALRM, lambda *_: (print("FAIL: simulation hangs"), sys.exit(2)))
signal.alarm(15)


def ticks_of(start, period, durations, stop):
    """Run `interval(period)` from `start` with given body durations until `stop`"""
    ticks = []  # (yielded value, time.now at body start)

    async def ticker():
        body_durations = iter(durations)
        async with until(time == stop):
            async for now in interval(period):
                ticks.append((now, time.now))
                duration = next(body_durations, 0)
                if duration:
                    await (time + duration)

    run(ticker(), start=start)
    return ticks


def check(start, period, durations, stop):
    ticks = ticks_of(start, period, durations, stop)
    expected = []
    date = start + period
    while date <= stop:
        expected.append((date, date))
        date += period
    assert ticks == expected, (
        f"interval({period}) started at {start} with body durations {durations}:"
        f" expected (yielded, resumed at) {expected} but got {ticks}"
    )


def check_side_by_side():
    """interval next to a delay ticker in one scope, both passing date 0"""
    seen = {'interval': [], 'delay': []}

    async def tick_interval():
        async for now in interval(5):
            seen['interval'].append(time.now)
            await (time + 2)

    async def tick_delay():
        async for now in delay(5):
            seen['delay'].append(time.now)
            await (time + 5)

    async def main():
        async with until(time == 11) as scope:
            scope.do(tick_interval())
            scope.do(tick_delay())

    run(main(), start=-10)
    assert seen['delay'] == [-5, 5], f"delay(5) from -10: {seen['delay']}"
    assert seen['interval'] == [-5, 0, 5, 10], (
        f"interval(5) started at -10 next to delay(5) must tick at [-5, 0, 5, 10]"
        f" but ticked at {seen['interval']}"
    )


print("usim from", usim.__file__)
# sanity: the usual start dates, grid not passing a tick *onto* 0
check(0, 10, [0, 3, 10, 0], 45)
check(5, 10, [3, 10, 0], 45)
check(-25, 10, [3, 10, 0, 3], 25)   # grid -15, -5, 5, ...: steps over 0
# the grid passes exactly through date 0
check(-20, 10, [0, 3, 10, 0, 3], 35)
check(-20, 10, [3, 3, 3, 3, 3], 35)
check(-10, 10, [0, 0, 0], 25)        # very first tick is at date 0
check(-3, 1, [0, 1, 0, 1, 0, 1], 3)
check_side_by_side()
print("OK: interval ticks on its grid for all checked start dates")
