"""
C14 demo 2: interval(p) raises IntervalExceeded exactly when a body run took
longer than p -- this includes the degenerate period p = 0.

Scenario: a ticker ``interval(0)``.  As long as the body takes no time, it
ticks over and over in the same moment (passing control to its neighbour in
between).  As soon as one body run takes any time (> 0 = the period), the grid
``start + k * 0`` can no longer be met and IntervalExceeded must be raised when
the next tick is requested.
"""
import signal
import sys

signal.signal(signal.SIGALRM, lambda *_: (print("FAIL: simulation hung"), sys.exit(3)))
signal.alarm(15)

from usim import run, time, Scope, interval, IntervalExceeded  # noqa: E402

START = 7
log = []
outcome = []


async def ticker(slow_round, body_duration):
    rounds = 0
    try:
        async for now in interval(0):
            assert now == time.now, "interval must yield the current time"
            log.append(('tick', now))
            rounds += 1
            if rounds == slow_round:
                await (time + body_duration)  # longer than the period of 0
            if rounds == slow_round + 3:
                break
    except IntervalExceeded:
        outcome.append(('exceeded', rounds, time.now))
    else:
        outcome.append(('finished', rounds, time.now))


async def neighbour(steps):
    for _ in range(steps):
        log.append(('neighbour', time.now))
        await (time + 0)


async def main():
    await (time + START)
    async with Scope() as scope:
        scope.do(ticker(slow_round=3, body_duration=5))
        scope.do(neighbour(steps=3))


run(main())
print(log)
print(outcome)

ticks = [t for kind, t in log if kind == 'tick']
# sanity, holds on any correct tree: zero-duration bodies tick in the same moment,
# and the neighbour gets to run in between the ticks
assert ticks[:3] == [START] * 3, "FAIL: interval(0) left the grid: %s" % ticks
assert log[:6] == [
    ('neighbour', START), ('tick', START)
] * 3 or log[:6] == [
    ('tick', START), ('neighbour', START)
] * 3, "FAIL: interval(0) did not alternate with its neighbour: %s" % log
# the actual point: the third body run took 5 > 0
assert outcome == [('exceeded', 3, START + 5)], (
    "FAIL: interval(0) did not raise IntervalExceeded after a body run that "
    "took 5 > period; ticker outcome was %r, ticks at %s" % (outcome, ticks)
)
assert ticks == [START] * 3, \
    "FAIL: interval(0) ticked off the grid start + k*0: %s" % ticks
print("OK")
