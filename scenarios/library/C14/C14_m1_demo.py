"""
C14 demo 1: interval() must pass control to other activities between two
body runs -- also when the body took *exactly* one period, so that no
further pause is needed to stay on the grid.

Scenario: a ticker ``interval(10)`` whose body takes exactly 10 and, as its
very last action at time t, launches a helper activity (``scope.do`` does not
suspend).  The helper is thus pending at time t when the body run ends.
Because interval() lets other activities run between iterations, the helper
must get to run *before* the next body run starts (also at time t).
"""
import signal
import sys

signal.signal(signal.SIGALRM, lambda *_: (print("FAIL: simulation hung"), sys.exit(3)))
signal.alarm(15)

from usim import run, time, Scope, interval, IntervalExceeded  # noqa: E402

PERIOD = 10
ROUNDS = 4
log = []


async def helper(launched_at):
    log.append(('helper', launched_at, time.now))


async def ticker(scope):
    rounds = 0
    async for now in interval(PERIOD):
        log.append(('tick', now))
        assert now == time.now, "interval must yield the current time"
        rounds += 1
        if rounds == ROUNDS:
            break
        await (time + PERIOD)  # the body takes exactly one period
        scope.do(helper(time.now))
        log.append(('body-end', time.now))


async def main():
    async with Scope() as scope:
        scope.do(ticker(scope))


try:
    run(main())
except IntervalExceeded:
    print("FAIL: IntervalExceeded raised although the body never took longer "
          "than the period")
    sys.exit(1)

print(log)
ticks = [entry[1] for entry in log if entry[0] == 'tick']
assert ticks == [PERIOD * i for i in range(1, ROUNDS + 1)], \
    "FAIL: interval(%s) ticked off-grid: %s" % (PERIOD, ticks)
# between the end of a body run at t and the next body run (also at t), the
# helper that is pending at t must have been allowed to run
for idx, entry in enumerate(log):
    if entry[0] == 'body-end':
        t = entry[1]
        nxt = log[idx + 1]
        assert nxt == ('helper', t, t), (
            "FAIL: interval() started the next body run at t=%s directly after "
            "the previous one ended, without letting the pending helper "
            "activity run in between (next log entry: %r)" % (t, nxt)
        )
print("OK")
