"""
C13 demo 2: a congested pipe that becomes uncongested while transfers are in flight.

Scenario 1 -- pipe throughput 2, both start at t=0:
  A: volume 1, limit 2      B: volume 3, limit 2
While both are active each gets 2 * 2/4 = 1.  A is done at t=1; from then on
B is alone, the pipe is no longer congested and B runs at its own limit 2:
B has 2 left -> done at t=2.

Scenario 2 -- pipe throughput 2, three transfers start together:
  C: volume 1,   limit 2    D: volume 1.5, limit 1    E: volume 2.5, limit 1
Sum of limits 4 -> rates 1, 0.5, 0.5.  C ends at +1.  Then the sum of limits
is 2 == pipe throughput (uncongested): D, E run at 1 -> D ends at +2, E at +3.
"""
import sys
from usim import run, time, Pipe, Scope

ends = {}


async def xfer(pipe, name, total, limit, origin=0):
    await pipe.transfer(total=total, throughput=limit)
    ends[name] = time.now - origin


async def main():
    pipe = Pipe(throughput=2)
    async with Scope() as scope:
        scope.do(xfer(pipe, 'A', 1, 2))
        scope.do(xfer(pipe, 'B', 3, 2))
    await (time + 10)
    origin = time.now
    pipe = Pipe(throughput=2)
    async with Scope() as scope:
        scope.do(xfer(pipe, 'C', 1, 2, origin))
        scope.do(xfer(pipe, 'D', 1.5, 1, origin))
        scope.do(xfer(pipe, 'E', 2.5, 1, origin))


run(main())
print(ends)
expected = {'A': 1.0, 'B': 2.0, 'C': 1.0, 'D': 2.0, 'E': 3.0}
bad = {
    key: (ends.get(key), want) for key, want in expected.items()
    if key not in ends or abs(ends[key] - want) > 1e-9
}
if bad:
    print("FAIL: transfers did not end at the fluid-model time "
          "(name: (actual, expected)):", bad)
    sys.exit(1)
print("OK")
