"""
C13 demo 1: proportional sharing with a transfer whose own limit exceeds the pipe.

Pipe throughput 2.  Two transfers start together at t=0:
  A: volume 4, limit 4      B: volume 2, limit 2
Sum of limits is 6 > 2, so the fluid model gives
  rate(A) = 4 * 2/6 = 4/3,  rate(B) = 2 * 2/6 = 2/3
and both finish at exactly t = 3.
"""
import sys
from usim import run, time, Pipe, Scope

ends = {}


async def xfer(pipe, name, total, limit):
    await pipe.transfer(total=total, throughput=limit)
    ends[name] = time.now


async def main():
    pipe = Pipe(throughput=2)
    async with Scope() as scope:
        scope.do(xfer(pipe, 'A', 4, 4))
        scope.do(xfer(pipe, 'B', 2, 2))
    # second scenario: three transfers, one of them "greedy" (limit 10 on pipe 2)
    # limits 10, 5, 5 -> sum 20 -> rates 1.0, 0.5, 0.5
    start = time.now
    async with Scope() as scope:
        scope.do(xfer(pipe, 'G', 3, 10))     # 3 / 1.0 = 3
        scope.do(xfer(pipe, 'H', 1.5, 5))    # 1.5 / 0.5 = 3
        scope.do(xfer(pipe, 'I', 1.5, 5))    # 1.5 / 0.5 = 3
    for key in 'GHI':
        ends[key] -= start


run(main())
print(ends)
expected = {'A': 3.0, 'B': 3.0, 'G': 3.0, 'H': 3.0, 'I': 3.0}
bad = {
    key: (ends.get(key), want) for key, want in expected.items()
    if key not in ends or abs(ends[key] - want) > 1e-9
}
if bad:
    print("FAIL: transfers did not end at the fluid-model time "
          "(name: (actual, expected)):", bad)
    sys.exit(1)
print("OK")
