"""
C13 demo: proportional sharing of a Pipe when one transfer's limit exceeds
the pipe's throughput while another transfer with a smaller limit is active.

Fluid model, pipe throughput 4:
  A: volume 9, limit 6      B: volume 2, limit 2     (both start at t=0)
  t in [0, 2):  sum of limits 8 > 4  ->  A runs at 6*4/8 = 3, B at 2*4/8 = 1
  t = 2      :  B done (2 = 1*2), A has moved 6
  t in [2, ..): A alone, min(6, 6*4/6 = 4) = 4 -> remaining 3 takes 0.75
  => B ends at 2.0, A ends at 2.75
Second scenario adds a cancellation of the big transfer half way through.
"""
import sys
import signal

from usim import run, time, Pipe, Scope

signal.alarm(15)  # a hang must not block

results = {}


async def xfer(pipe, name, total, limit):
    await pipe.transfer(total=total, throughput=limit)
    results[name] = time.now


async def scenario_share():
    pipe = Pipe(throughput=4)
    async with Scope() as scope:
        scope.do(xfer(pipe, 'A', 9, 6))
        scope.do(xfer(pipe, 'B', 2, 2))
    results['share_end'] = time.now


async def scenario_single():
    # sanity: a lone transfer with limit above the pipe is bound by the pipe
    await (time + 10)
    pipe = Pipe(throughput=4)
    start = time.now
    await pipe.transfer(total=8, throughput=16)
    results['single'] = time.now - start


async def scenario_cancel():
    # pipe 4; C: volume 100, limit 12 ; D: volume 3, limit 4
    # t in [0,1): sum 16 -> C at 3, D at 1 ; C is cancelled at t=1, D has moved 1
    # then D alone at 4 -> remaining 2 takes 0.5 -> D ends at 21.5
    await (time + 20)
    pipe = Pipe(throughput=4)
    start = time.now
    async with Scope() as scope:
        big = scope.do(xfer(pipe, 'C', 100, 12))
        scope.do(xfer(pipe, 'D', 3, 4))
        await (time + 1)
        big.cancel()
    results['D'] = results['D'] - start


def close(a, b):
    return abs(a - b) < 1e-9


run(scenario_share(), scenario_single(), scenario_cancel())

assert close(results['single'], 2.0), \
    "lone transfer limit>pipe: expected 2.0, got %r" % results['single']
assert close(results['B'], 2.0), (
    "transfer B (limit 2) sharing pipe 4 with A (limit 6) must run at "
    "2*4/8 = 1 and end at t=2.0, but ended at t=%r" % results['B'])
assert close(results['A'], 2.75), \
    "transfer A must end at t=2.75, ended at t=%r" % results['A']
assert 'C' not in results, "cancelled transfer C must not complete"
assert close(results['D'], 1.5), (
    "transfer D (limit 4) sharing pipe 4 with C (limit 12, cancelled at +1) "
    "must end 1.5 after start, but took %r" % results['D'])
print("OK", results)
sys.exit(0)
