"""
C12 demo: a claim never waits, and raises ResourcesUnavailable exactly when
the amount is not available *on entry* of the claim's block -- regardless of
what the levels were when the claim object was made.

Run as:  PYTHONPATH=<tree> timeout 20 /venv/bin/python demo.py
"""
import sys

from usim import run, Scope, time, Resources, Capacities, ResourcesUnavailable

FAILURES = []


def check(cond, message):
    if not cond:
        FAILURES.append(message)
        print("VIOLATION:", message)


async def hold(supply, duration, **amounts):
    async with supply.borrow(**amounts):
        await (time + duration)


async def stale_claim(supply_type):
    """A claim is made while resources are free but entered once they are taken"""
    name = supply_type.__name__
    supply = supply_type(a=2, b=2)
    total = supply.resource_type(a=2, b=2)
    start = time.now
    async with Scope() as scope:
        # prepare the claim first, while everything is still available
        claim = supply.claim(a=2, b=1)
        # someone else takes part of the supply in the meantime
        scope.do(hold(supply, 10, a=1))
        await (time + 1)
        check(dict(supply.levels) == {'a': 1, 'b': 2}, f"{name}: setup failed")
        before = time.now
        try:
            async with claim:
                check(
                    False,
                    f"{name}: claim of a=2 entered at time {time.now - start} with "
                    f"levels {supply.levels}, but only a=1 was available on entry "
                    f"at time {before - start}: ResourcesUnavailable expected"
                )
        except ResourcesUnavailable:
            pass
        check(
            time.now == before,
            f"{name}: claim waited from {before - start} to {time.now - start}"
            f" instead of failing at once"
        )
        check(
            supply.levels >= supply.resource_type(),
            f"{name}: negative levels {supply.levels}"
        )
    check(supply.levels == total, f"{name}: levels {supply.levels} at quiescence")


async def retry_failed_claim(supply_type):
    """The claim attached to ResourcesUnavailable is retried while still unavailable"""
    name = supply_type.__name__
    supply = supply_type(a=1)
    start = time.now
    async with Scope() as scope:
        scope.do(hold(supply, 10, a=1))
        await (time + 1)
        failed = None
        try:
            async with supply.claim(a=1):
                check(False, f"{name}: claim succeeded on exhausted supply")
        except ResourcesUnavailable as err:
            failed = err.claim
        check(failed is not None, f"{name}: no claim attached to ResourcesUnavailable")
        await (time + 1)
        before = time.now
        try:
            async with failed:
                check(
                    False,
                    f"{name}: retried claim entered at {time.now - start} "
                    f"although nothing was available on entry at {before - start}"
                )
        except ResourcesUnavailable:
            pass
        check(time.now == before, f"{name}: retried claim waited until {time.now - start}")
    check(supply.levels == supply.resource_type(a=1), f"{name}: levels at quiescence")


async def late_claim(supply_type):
    """A claim is made while resources are taken but entered once they are free"""
    name = supply_type.__name__
    supply = supply_type(a=1)
    async with Scope() as scope:
        scope.do(hold(supply, 5, a=1))
        await (time + 1)
        try:
            claim = supply.claim(a=1)
        except ResourcesUnavailable:
            check(
                False,
                f"{name}: ResourcesUnavailable raised without entering the claim"
            )
            return
        await (time + 10)
        before = time.now
        try:
            async with claim:
                check(time.now == before, f"{name}: claim waited on free supply")
        except ResourcesUnavailable:
            check(False, f"{name}: claim failed although a=1 was available on entry")
    check(supply.levels == supply.resource_type(a=1), f"{name}: levels at quiescence")


async def ordinary_claims(supply_type):
    """Sanity: claims made and entered in one go"""
    supply = supply_type(a=2)
    async with supply.claim(a=2):
        try:
            async with supply.claim(a=1):
                check(False, "claim on exhausted supply succeeded")
        except ResourcesUnavailable:
            pass
    async with supply.claim(a=1):
        async with supply.claim(a=1):
            pass
    check(supply.levels == supply.resource_type(a=2), "ordinary claims leaked")


completed = False


async def root():
    global completed
    for supply_type in (Resources, Capacities):
        await ordinary_claims(supply_type)
        await stale_claim(supply_type)
        await retry_failed_claim(supply_type)
        await late_claim(supply_type)
    completed = True

run(root())
check(completed, "simulation did not run to completion")
if FAILURES:
    print(f"{len(FAILURES)} violation(s) of C12")
    sys.exit(1)
print("OK: claims never waited and failed exactly when unavailable on entry")
