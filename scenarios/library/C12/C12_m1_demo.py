"""
C12 demo: resources held by a forcefully closed activity must be returned
exactly once, even if the supply is used by someone else in the very same
time step, between the close and the deferred release.

Run as:  PYTHONPATH=<tree> timeout 20 /venv/bin/python demo.py
"""
import math
import sys

from usim import run, Scope, time, Resources, Capacities

FAILURES = []


def check(cond, message):
    if not cond:
        FAILURES.append(message)
        print("VIOLATION:", message)


async def hold_forever(supply, **amounts):
    async with supply.borrow(**amounts):
        await (time + math.inf)


async def volatile_then_borrow(supply_type):
    """A volatile holder is closed at scope end; the parent borrows right after"""
    supply = supply_type(a=3, b=3)
    total = supply.resource_type(a=3, b=3)
    async with Scope() as scope:
        scope.do(hold_forever(supply, a=2, b=1), volatile=True)
        await (time + 5)
        check(dict(supply.levels) == {'a': 1, 'b': 2}, "setup: holder did not acquire")
    # the volatile holder has been closed just now, its release is pending
    # we acquire from the supply in the same time step, without suspending before
    held = supply.resource_type(a=1, b=1)
    async with supply.borrow(a=1, b=1):
        await (time + 1)
        check(
            supply.levels <= total - held,
            f"{supply_type.__name__}: level {supply.levels} exceeds supply - held "
            f"= {total - held} after close + borrow in same step"
        )
    await (time + 1)
    check(
        supply.levels == total,
        f"{supply_type.__name__}: level at quiescence is {supply.levels}, "
        f"expected {total} (volatile close, then borrow)"
    )


async def close_then_release(supply_type):
    """One holder is closed while another holder releases in the same time step"""
    supply = supply_type(a=4)
    total = supply.resource_type(a=4)

    async def hold_for(delay, **amounts):
        async with supply.borrow(**amounts):
            await (time + delay)

    async with Scope() as scope:
        victim = scope.do(hold_forever(supply, a=2))
        scope.do(hold_for(10, a=1))
        await (time + 5)
        # claim directly after closing: the claim must see the pre-release level
        victim.__close__()
        async with supply.claim(a=1):
            await (time + 1)
            check(
                supply.levels <= supply.resource_type(a=2),
                f"{supply_type.__name__}: level {supply.levels} too high while "
                f"2 of 4 are still held after close + claim in same step"
            )
    await (time + 5)
    check(
        supply.levels == total,
        f"{supply_type.__name__}: level at quiescence is {supply.levels}, "
        f"expected {total} (close, then claim)"
    )


async def plain_close(supply_type):
    """Sanity: a plain close with nothing else going on returns everything"""
    supply = supply_type(a=4)
    async with Scope() as scope:
        victim = scope.do(hold_forever(supply, a=3))
        await (time + 5)
        victim.__close__()
        await (time + 1)
        check(supply.levels == supply.resource_type(a=4), "plain close leaked")


async def main():
    for supply_type in (Resources, Capacities):
        await plain_close(supply_type)
        await volatile_then_borrow(supply_type)
        await close_then_release(supply_type)


completed = False


async def root():
    global completed
    await main()
    completed = True

run(root())
check(completed, "simulation did not run to completion")
if FAILURES:
    print(f"{len(FAILURES)} violation(s) of C12")
    sys.exit(1)
print("OK: closed holders returned their resources exactly once")
