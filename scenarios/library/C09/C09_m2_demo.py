"""
C09 demo: a lock must be passed on when the *designated* next owner is
forcefully closed before it was resumed.

The holder releases the lock, which designates the oldest waiter A as owner
and schedules its wake-up.  Before A runs, the scope owning A fails and
forcefully closes A (``GeneratorExit`` at A's suspension point inside
``Lock.__aenter__``).  Ownership must pass on to the next waiter B; when
everybody is gone the lock must be free.
"""
import sys
from usim import run, time, instant, Lock, Scope

FAILURES = []
LOG = []
STATE = {}


def check(cond, message):
    if not cond and message not in FAILURES:
        FAILURES.append(message)


async def user(lock, name, hold):
    async with lock:
        LOG.append((name, 'enter', time.now))
        await (time + hold)
        LOG.append((name, 'leave', time.now))


async def scenario(n_followers):
    lock = Lock()
    del LOG[:]
    start = time.now
    async with Scope() as outer:
        try:
            async with Scope() as inner:
                async with lock:
                    inner.do(user(lock, 'A', 5))       # first in line
                    for i in range(n_followers):       # queued behind A
                        outer.do(user(lock, 'B%d' % i, 5))
                    await instant                      # let all of them queue up
                    LOG.append(('main', 'release', time.now))
                # lock released: A is the designated owner, not yet resumed
                raise KeyError('abort inner scope')    # ... A is closed forcefully
        except KeyError:
            pass
        check(not any(entry[0] == 'A' for entry in LOG), "closed activity A entered the lock")
        if n_followers == 0:
            # nobody holds, nobody waits: must be free right away
            check(lock.available and lock._owner is None,
                  "lock is not free although its only (designated) waiter was "
                  "closed: %r" % lock)
            async with lock:
                LOG.append(('main', 'enter', time.now))
    STATE['finished %d' % n_followers] = True
    expected = [('B%d' % i, what, when)
                for i in range(n_followers)
                for what, when in (('enter', start + 5 * i), ('leave', start + 5 * i + 5))]
    got = [entry for entry in LOG if entry[0].startswith('B')]
    check(got == expected,
          "waiters behind the closed designated owner did not get the lock in "
          "order: expected %r, got %r" % (expected, got))
    check(lock.available and lock._owner is None and lock._depth == 0,
          "lock not free after all users left: %r" % lock)


async def main():
    await scenario(0)
    await scenario(1)
    await scenario(3)
    STATE['finished'] = True


try:
    run(main())
except BaseException as err:
    FAILURES.append("simulation aborted with %r" % (err,))
if not STATE.get('finished'):
    FAILURES.append(
        "simulation stalled - the lock was never passed on after its designated "
        "owner was closed (progress: %r, log: %r)" % (STATE, LOG))
if FAILURES:
    for failure in FAILURES:
        print("FAIL:", failure)
    sys.exit(1)
print("OK")
