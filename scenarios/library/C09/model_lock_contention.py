"""C09 scenario family: K activities contend for one lock with pseudo-random arrival/hold times (fixed seeds).
Checked against an independent model: at most one holder, FIFO grant order among waiters, lock free at the end."""
import random, sys
import usim
from usim import Lock, Scope, time

def run_one(seed):
    rnd = random.Random(seed)
    n = rnd.randint(2, 6)
    plan = [(rnd.choice([0, 0, 1, 2, 3]), rnd.choice([0, 1, 2])) for _ in range(n)]   # (arrival, hold)
    inside = []; asked = []; got = []; errors = []
    async def worker(i, lock, arrive, hold):
        if arrive:
            await (time + arrive)
        asked.append(i)
        async with lock:
            if inside:
                errors.append("seed %d: %d entered while %r inside at %s" % (seed, i, inside, time.now))
            inside.append(i); got.append(i)
            async with lock:        # re-entrant
                pass
            if hold:
                await (time + hold)
            inside.remove(i)
    async def main():
        lock = Lock()
        async with Scope() as scope:
            for i, (a, h) in enumerate(plan):
                scope.do(worker(i, lock, a, h))
        if not lock.available:
            errors.append("seed %d: lock not free at the end" % seed)
    usim.run(main())
    if sorted(got) != list(range(n)):
        errors.append("seed %d: not everybody got the lock: %r" % (seed, got))
    if got != asked:
        errors.append("seed %d: grant order %r differs from request order %r" % (seed, got, asked))
    return errors

bad = []
for seed in range(40):
    bad += run_one(seed)
if bad:
    print("VIOLATION:", bad[0]); sys.exit(1)
sys.exit(0)
