"""
C09 demo: mutual exclusion / FIFO hand-off in the window between a release
and the resumption of the designated next owner.

A holder releases the lock while a waiter is queued.  In the *same turn*
(before the designated waiter has been resumed) the lock is requested again,
(1) by the previous holder itself and (2) by a freshly arriving activity.
The request must queue behind the designated waiter; at no point may two
activities be inside the block.
"""
import sys
from usim import run, time, Lock, Scope


FAILURES = []


def check(cond, message):
    if not cond and message not in FAILURES:
        FAILURES.append(message)


class Probe:
    def __init__(self):
        self.lock = Lock()
        self.inside = 0
        self.max_inside = 0
        self.entries = []

    def enter(self, name):
        self.inside += 1
        check(self.inside == 1,
              "mutual exclusion violated: %r entered the block at time %s while "
              "another activity is inside (entries so far: %r)"
              % (name, time.now, self.entries))
        self.max_inside = max(self.max_inside, self.inside)
        self.entries.append((name, time.now))

    def leave(self):
        self.inside -= 1


async def scenario_rerequest():
    """holder re-requests right after releasing, a waiter is already queued"""
    p = Probe()

    async def holder():
        async with p.lock:
            p.enter('A1')
            await (time + 5)
            p.leave()
        # same turn as the release: B is designated but has not run yet
        check(not p.lock.available,
              "re-request: lock handed to waiter B must not be 'available' to A")
        async with p.lock:
            p.enter('A2')
            await (time + 5)
            p.leave()

    async def waiter():
        await (time + 1)
        async with p.lock:
            p.enter('B')
            await (time + 5)
            p.leave()

    async with Scope() as scope:
        scope.do(holder())
        scope.do(waiter())
    check(p.max_inside == 1,
          "re-request: %d activities inside the lock at once (%r)"
          % (p.max_inside, p.entries))
    check([n for n, _ in p.entries] == ['A1', 'B', 'A2'],
          "re-request: lock not handed over in request order: %r" % p.entries)
    check(p.entries == [('A1', 0), ('B', 5), ('A2', 10)],
          "re-request: wrong entry times %r" % p.entries)
    check(p.lock.available and p.lock._owner is None and p.lock._depth == 0,
          "re-request: lock not free at the end: %r" % p.lock)


async def scenario_same_turn_arrival():
    """a third activity arrives in the turn of the release"""
    p = Probe()

    async def user(name, arrive, hold):
        if arrive:
            await (time + arrive)
        async with p.lock:
            p.enter(name)
            await (time + hold)
            p.leave()

    async with Scope() as scope:
        scope.do(user('A', 0, 5))   # holds 0..5
        scope.do(user('C', 5, 5))   # wakes at 5, in the same step, after A
        scope.do(user('B', 1, 5))   # queued since 1, designated at 5
    check(p.max_inside == 1,
          "same-turn arrival: %d activities inside the lock at once (%r)"
          % (p.max_inside, p.entries))
    check([n for n, _ in p.entries] == ['A', 'B', 'C'],
          "same-turn arrival: lock not handed over in request order: %r"
          % p.entries)
    check(p.lock.available and p.lock._owner is None and p.lock._depth == 0,
          "same-turn arrival: lock not free at the end: %r" % p.lock)


async def main():
    await scenario_rerequest()
    await scenario_same_turn_arrival()


try:
    run(main())
except BaseException as err:  # the broken lock may also trip usim-internal checks
    FAILURES.append("simulation aborted with %r" % (err,))
if FAILURES:
    for failure in FAILURES:
        print("FAIL:", failure)
    sys.exit(1)
print("OK")
