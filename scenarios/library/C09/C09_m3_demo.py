"""
C09 demo: a lock holder that is forcefully closed must pass ownership on.

A holder is closed (GeneratorExit) at a suspension point inside ``async with lock``
while another activity is queued for the lock.  The queued activity must obtain
the lock at the moment of the close, and the lock must be free at the end.

Run as:  PYTHONPATH=<tree> timeout 20 /venv/bin/python demo.py
"""
import signal
import sys

from usim import run, time, Lock, Scope, until


def _watchdog(signum, frame):
    print("FAIL: demo timed out (simulation hangs)")
    sys.exit(2)


signal.signal(signal.SIGALRM, _watchdog)
signal.alarm(15)


async def holder(lock, log, depth):
    """Hold ``lock`` (re-entered ``depth`` times) far longer than we live"""
    if depth > 1:
        async with lock:
            await holder(lock, log, depth - 1)
    else:
        async with lock:
            log.append(('holder in', time.now))
            await (time + 100)
            log.append(('holder out', time.now))


async def waiter(lock, log, name, arrive, hold):
    await (time + arrive)
    async with lock:
        log.append((name + ' in', time.now))
        await (time + hold)
    log.append((name + ' out', time.now))


async def scenario(mode, depth):
    lock = Lock()
    log = []
    async with Scope() as outer:
        first = outer.do(waiter(lock, log, 'w1', arrive=1, hold=2))
        second = outer.do(waiter(lock, log, 'w2', arrive=2, hold=2))
        if mode == 'until':
            # the interrupted scope closes its child at time 5
            async with until(time == 5) as inner:
                inner.do(holder(lock, log, depth))
        else:
            # the volatile child is closed when the scope ends at time 5
            async with Scope() as inner:
                inner.do(holder(lock, log, depth), volatile=True)
                await (time == 5)
        closed_at = time.now
        await (time + 20)
        # never let a stuck waiter block the end of the scope (and the demo)
        for task in (first, second):
            if not task.done:
                task.cancel()
    return lock, log, closed_at


async def check(mode, depth):
    lock, log, closed_at = await scenario(mode, depth)
    what = "mode=%s depth=%d: " % (mode, depth)
    assert closed_at == 5, what + "holder closed at %s" % closed_at
    assert [e for e in log if e[0].startswith('holder')] == [('holder in', 0)], (
        what + "unexpected holder behaviour %r" % log
    )
    # FIFO hand-off: w1 obtains the lock when the holder is closed,
    # w2 when w1 is done
    assert ('w1 in', 5) in log, (
        what + "closed holder did not pass the lock on to the oldest"
        " waiter at time 5; log=%r" % log
    )
    assert ('w2 in', 7) in log, (
        what + "second waiter did not obtain the lock at time 7; log=%r" % log
    )
    assert [e[0] for e in log] == [
        'holder in', 'w1 in', 'w1 out', 'w2 in', 'w2 out'
    ], what + "wrong order %r" % log
    assert lock.available, what + "lock not free at the end"
    assert lock._owner is None and lock._depth == 0, what + repr(lock)


for _mode in ('until', 'volatile'):
    for _depth in (1, 3):
        run(check(_mode, _depth))  # every scenario starts at time 0
print("OK")
signal.alarm(0)
