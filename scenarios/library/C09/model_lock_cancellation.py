"""C09 scenario family: contention with waiters/holders that get cancelled at pseudo-random times (fixed seeds):
never two holders, everybody who was not cancelled gets the lock, the lock is free at the end."""
import random, sys
import usim
from usim import Lock, Scope, time, TaskCancelled

def run_one(seed):
    rnd = random.Random(seed)
    n = rnd.randint(2, 6)
    plan = [(rnd.choice([0, 0, 1, 2]), rnd.choice([1, 2, 3]), rnd.choice([None, None, 0, 1, 2, 3])) for _ in range(n)]
    inside = []; got = []; errors = []
    async def worker(i, lock, arrive, hold):
        if arrive:
            await (time + arrive)
        async with lock:
            if inside:
                errors.append("seed %d: %d entered while %r inside at %s" % (seed, i, inside, time.now))
            inside.append(i); got.append(i)
            try:
                await (time + hold)
            finally:
                inside.remove(i)
    async def killer(task, at):
        await (time + at)
        task.cancel()
    async def main():
        lock = Lock()
        async with Scope() as scope:
            tasks = []
            for i, (a, h, c) in enumerate(plan):
                t = scope.do(worker(i, lock, a, h))
                tasks.append(t)
                if c is not None:
                    scope.do(killer(t, c))
        if not lock.available:
            errors.append("seed %d: lock not free at the end" % seed)
        async with lock:      # must be obtainable at once
            pass
    usim.run(main())
    for i, (a, h, c) in enumerate(plan):
        if c is None and i not in got:
            errors.append("seed %d: worker %d was never cancelled but never got the lock" % (seed, i))
    return errors

bad = []
for seed in range(60):
    bad += run_one(seed)
if bad:
    print("VIOLATION:", bad[0]); sys.exit(1)
sys.exit(0)
