"""
C08 demo: a waiter on ``a & b`` must complete in the first time step in which
``a & b`` is true when it gets its turn -- also when a child that was already
true when the wait began turns false and true again while waiting.

Exits 0 when the property holds, non-zero (AssertionError) otherwise.
Run as:  PYTHONPATH=<tree> timeout 20 /venv/bin/python demo.py
"""
import sys

from usim import run, time, Flag, Scope, Tracked


def scenario_across_steps():
    """a: T -> F (t=1) -> T (t=3); b: F -> T (t=2); `a & b` first true at t=3"""
    woke = []

    async def waiter(cond, name):
        await cond
        woke.append((name, time.now, bool(cond)))

    async def main():
        a, b = Flag(), Flag()
        await a.set()
        cond = a & b
        async with Scope() as scope:
            scope.do(waiter(cond, 'w1'))
            scope.do(waiter(a & b, 'w2'))  # separately derived, same meaning
            await (time + 1)
            await a.set(False)  # t=1: child that was true at await time reverts
            await (time + 1)
            await b.set()       # t=2: the other child fires, a & b still false
            await (time + 1)
            await a.set()       # t=3: a & b is true now
            await (time + 1)
            assert bool(cond), "sanity: a & b must evaluate true at t=4"
            # a waiter may not be left waiting after a step in which c held
            assert sorted(woke) == [('w1', 3, True), ('w2', 3, True)], (
                "C08 violated: waiters of `a & b` should have completed at t=3 "
                "(a & b true since t=3), observed completions: %r" % (woke,)
            )

    run(main())
    return woke


def scenario_within_one_step():
    """tracked values; all changes (incl. revert) happen within time step 5"""
    woke = []

    async def waiter(cond):
        await cond
        woke.append((time.now, bool(cond)))

    async def main():
        x, y = Tracked(1), Tracked(0)
        cond = (x > 0) & (y == 2)   # x > 0 true at await time, y == 2 false
        async with Scope() as scope:
            scope.do(waiter(cond))
            await (time + 5)
            await x.set(0)   # x > 0 reverts to false
            await y.set(2)   # y == 2 fires; conjunction still false
            await x.set(7)   # conjunction true within the same time step
            assert time.now == 5
            await (time + 1)
            assert woke == [(5, True)], (
                "C08 violated: waiter of `(x > 0) & (y == 2)` should have "
                "completed at t=5, observed completions: %r" % (woke,)
            )

    run(main())
    return woke


def scenario_plain():
    """ordinary use keeps working: both children false at first, fire in turn"""
    woke = []

    async def waiter(cond):
        await cond
        woke.append((time.now, bool(cond)))

    async def main():
        a, b = Flag(), Flag()
        async with Scope() as scope:
            scope.do(waiter(a & b))
            scope.do(waiter(a | b))
            await (time + 1)
            await a.set()
            await (time + 1)
            await b.set()
            await (time + 1)
            assert sorted(woke) == [(1, True), (2, True)], woke

    run(main())


if __name__ == '__main__':
    try:
        scenario_plain()
        scenario_across_steps()
        scenario_within_one_step()
    except AssertionError as err:
        print("FAIL:", err)
        sys.exit(1)
    print("OK: conjunction waiters woke in the first step their condition held")
    sys.exit(0)
