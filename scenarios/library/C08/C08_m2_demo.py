"""
C08 demo: a waiter on a tracked-value comparison must not be left waiting at the
end of a time step in which its condition holds -- even if the activity that
changed the value is cancelled / interrupted while suspended inside ``set``.

Run as:  PYTHONPATH=<tree> timeout 20 /venv/bin/python demo.py
"""
import sys
import signal

from usim import run, Scope, Flag, Tracked, Resources, time, until

signal.alarm(15)  # hard stop in case anything hangs


def scenario_cancel():
    """The setter Task is cancelled at the suspension point inside `Tracked.set`"""
    result = {}

    async def main():
        tracked = Tracked(0)
        woken = []
        handles = {}

        async def waiter(name):
            await (tracked == 5)
            woken.append((name, time.now, tracked.value))

        async def killer():
            await (time + 5)
            # runs *before* the setter in time step 5: the cancellation is
            # delivered at the setter's next suspension, i.e. inside ``set``
            handles['setter'].cancel()

        async def setter():
            await (time + 5)
            await tracked.set(5)

        async def observer():
            await (time + 6)
            result['value_after_step'] = tracked.value
            result['woken_after_step'] = list(woken)

        async with Scope() as scope:
            scope.do(waiter('w1'))
            scope.do(waiter('w2'))
            scope.do(killer())
            handles['setter'] = scope.do(setter())
            scope.do(observer())
            await (time + 10)
            result['woken_final'] = list(woken)
            # release stuck waiters (if any) so that the simulation terminates
            await tracked.set(0)
            await tracked.set(5)

    run(main(), till=50)
    return result


def scenario_until():
    """The setter is interrupted by an `until` scope while inside `Resources.set`"""
    result = {}

    async def main():
        resources = Resources(slots=0)
        stop = Flag()
        woken = []

        async def waiter():
            await (resources >= {'slots': 2})
            woken.append((time.now, resources.levels.slots))

        async def stopper():
            await (time + 5)
            await stop.set()  # runs before `producer` in time step 5

        async def producer():
            async with until(stop):
                await (time + 5)
                await resources.set(slots=3)
                await (time + 100)

        async def observer():
            await (time + 6)
            result['level_after_step'] = resources.levels.slots
            result['woken_after_step'] = list(woken)

        async with Scope() as scope:
            scope.do(waiter())
            scope.do(stopper())
            scope.do(producer())
            scope.do(observer())
            await (time + 10)
            await resources.set(slots=0)
            await resources.set(slots=3)

    run(main(), till=50)
    return result


def main():
    failures = []
    r1 = scenario_cancel()
    print('cancel scenario:', r1)
    if r1.get('value_after_step') != 5:
        failures.append('setup problem: tracked value was not changed to 5: %r' % (r1,))
    elif sorted(r1['woken_after_step']) != [('w1', 5, 5), ('w2', 5, 5)]:
        failures.append(
            'C08 violated: tracked == 5 held at the end of time step 5 but waiters '
            'were left waiting (woken=%r)' % (r1['woken_after_step'],)
        )
    r2 = scenario_until()
    print('until scenario:', r2)
    if r2.get('level_after_step') != 3:
        failures.append('setup problem: resource level was not changed: %r' % (r2,))
    elif r2['woken_after_step'] != [(5, 3)]:
        failures.append(
            'C08 violated: resources >= 2 held at the end of time step 5 but the '
            'waiter was left waiting (woken=%r)' % (r2['woken_after_step'],)
        )
    assert not failures, '\n'.join(failures)
    print('OK')


if __name__ == '__main__':
    try:
        main()
    except AssertionError as err:
        print('ASSERTION FAILED:', err, file=sys.stderr)
        sys.exit(1)
