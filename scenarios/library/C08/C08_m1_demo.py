"""
C08 demo: ``await (a & b)`` / ``await (a | b)`` must complete only at a moment at
which the connective evaluates true -- also when it was true at the moment of the
``await`` but another activity reverts a child while the waiter is postponed in
the very same time step.

Run as:  PYTHONPATH=<tree> timeout 20 /venv/bin/python demo.py
"""
import sys
import signal

from usim import run, Scope, Flag, Tracked, time

signal.alarm(15)  # hard stop in case anything hangs


def scenario(make_condition, label):
    """
    `make_condition(a, b, level)` builds a connective that is true at time 5 when
    awaited, is made false by ``a.set(False)`` in the same time step before the
    waiter gets its next turn, and becomes true again at time 8.
    """
    result = {'label': label}

    async def main():
        a, b = Flag(), Flag()
        level = Tracked(1)
        await a.set()
        condition = make_condition(a, b, level)

        async def waiter():
            await (time + 5)
            result['true_at_await'] = bool(condition)
            await condition
            # no suspension between completion of the await and these reads
            result['completed_at'] = time.now
            result['value_at_completion'] = bool(condition)

        async def reverter():
            await (time + 5)  # queued right behind `waiter` in time step 5
            await a.set(False)

        async def restorer():
            await (time + 8)
            await a.set()

        async with Scope() as scope:
            scope.do(waiter())
            scope.do(reverter())
            scope.do(restorer())

    run(main(), till=50)
    return result


def main():
    cases = [
        (lambda a, b, level: a & ~b, 'a & ~b'),
        (lambda a, b, level: a | b, 'a | b'),
        (lambda a, b, level: a & (level > 0), 'a & (level > 0)'),
        (lambda a, b, level: a & (time >= 2), 'a & (time >= 2)'),
    ]
    failures = []
    for make_condition, label in cases:
        res = scenario(make_condition, label)
        print(res)
        if not res.get('true_at_await'):
            failures.append('setup problem: %s not true when awaited: %r' % (label, res))
            continue
        if res.get('value_at_completion') is not True:
            failures.append(
                'C08 violated: `await (%s)` completed at time %s while the condition '
                'evaluated %r' % (label, res.get('completed_at'), res.get(
                    'value_at_completion'))
            )
        elif res.get('completed_at') != 8:
            failures.append(
                'C08 violated: `await (%s)` completed at time %s, expected 8'
                % (label, res.get('completed_at'))
            )
    assert not failures, '\n'.join(failures)
    print('OK')


if __name__ == '__main__':
    try:
        main()
    except AssertionError as err:
        print('ASSERTION FAILED:', err, file=sys.stderr)
        sys.exit(1)
