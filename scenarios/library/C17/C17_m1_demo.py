"""
C17 demo 1: a single child that is matched by SEVERAL listed types.

``Concurrent[A, B]`` matches a failure iff every listed type is matched by some
child (subclasses count) and every child matches some listed type. A child may
satisfy more than one listed type at once: a lone ``KeyError`` child satisfies
both ``KeyError`` and ``LookupError``.
"""
import sys
from usim import Concurrent


class Both(KeyError, ValueError):
    """multiple inheritance: is-a KeyError and is-a ValueError"""


# NOTE: a literal ``except handler:`` clause is deliberately not used here: on
# CPython 3 the except clause does not consult ``__subclasscheck__`` (already so
# on the unchanged tree), so we check ``issubclass``/``isinstance`` which is
# also what ``pytest.raises`` and the test-suite rely on.


def check(handler, failure, expected: bool):
    got_sub = issubclass(type(failure), handler)
    got_inst = isinstance(failure, handler)
    assert got_sub == got_inst, (
        f"issubclass/isinstance disagree for {handler} vs {failure!r}: "
        f"{got_sub}, {got_inst}"
    )
    assert got_sub == expected, (
        f"{handler} vs {failure!r}: expected match={expected}, got {got_sub}"
    )


def main():
    # sanity: ordinary cases
    check(Concurrent[KeyError], Concurrent(KeyError()), True)
    check(Concurrent[KeyError, IndexError], Concurrent(KeyError()), False)
    check(Concurrent[LookupError], Concurrent(KeyError(), IndexError()), True)
    # one child matched by two listed types related by inheritance
    check(Concurrent[KeyError, LookupError], Concurrent(KeyError()), True)
    check(Concurrent[KeyError, LookupError, ...], Concurrent(KeyError()), True)
    check(Concurrent[KeyError, LookupError, ...],
          Concurrent(KeyError(), TypeError()), True)
    check(Concurrent[LookupError, Exception], Concurrent(KeyError(), KeyError()), True)
    # one child matched by two unrelated listed types (multiple inheritance)
    check(Concurrent[KeyError, ValueError], Concurrent(Both()), True)
    check(Concurrent[KeyError, ValueError, ...], Concurrent(Both(), TypeError()), True)
    # nested: inner failure satisfies two listed nested specialisations
    check(
        Concurrent[Concurrent[KeyError], Concurrent[LookupError]],
        Concurrent(Concurrent(KeyError())), True,
    )
    # still no false positives
    check(Concurrent[KeyError, LookupError], Concurrent(KeyError(), TypeError()), False)
    check(Concurrent[KeyError, ValueError], Concurrent(Both(), TypeError()), False)
    check(Concurrent[KeyError, RuntimeError], Concurrent(KeyError()), False)
    print("ok")


if __name__ == "__main__":
    try:
        main()
    except AssertionError as err:
        print("PROPERTY C17 VIOLATED:", err, file=sys.stderr)
        sys.exit(1)
