"""
C17 demo: ``Concurrent.flattened()`` must preserve the leaf exceptions *and their order*.

Passes (exit 0) on the unchanged tree, fails on the changed tree: a nested
``Concurrent`` that itself carries two or more children gets its leaves emitted
in reverse order by ``flattened()``.
"""
import sys

from usim import Concurrent, Scope, run, time


def leaves(exc):
    """Reference: depth-first, left-to-right leaves of a Concurrent hierarchy"""
    result = []
    for child in exc.children:
        if isinstance(child, Concurrent):
            result.extend(leaves(child))
        else:
            result.append(child)
    return result


def check(exc, label):
    expected = leaves(exc)
    flat = exc.flattened()
    assert not any(isinstance(c, Concurrent) for c in flat.children), \
        f"{label}: flattened() left nested Concurrent: {flat!r}"
    assert len(flat.children) == len(expected) and all(
        a is b for a, b in zip(flat.children, expected)
    ), (
        f"{label}: flattened() does not preserve leaf order: "
        f"expected {expected!r}, got {list(flat.children)!r}"
    )
    # the type depends only on the set of leaf types - must hold in both trees
    assert type(flat) is Concurrent[tuple(type(e) for e in expected)], label


def direct():
    a, b, c, d, e = KeyError('a'), IndexError('b'), ValueError('c'), \
        TypeError('d'), KeyError('e')
    # single-child nesting (what the test-suite covers)
    check(Concurrent(Concurrent(a), b, c), "single nested child")
    check(Concurrent(a, Concurrent(b), c), "single nested child, middle")
    # nested Concurrent with several children
    check(Concurrent(Concurrent(a, b), c), "two nested children, leading")
    check(Concurrent(a, Concurrent(b, c), d), "two nested children, middle")
    check(Concurrent(a, Concurrent(b, Concurrent(c, d)), e), "two levels")


async def async_raise(exc, after):
    await (time + after)
    raise exc


def via_scopes():
    """The same through real scopes: an inner scope failing with two children"""
    first, second, outer = KeyError('first'), IndexError('second'), ValueError('outer')
    caught = []

    async def inner():
        async with Scope() as scope:
            scope.do(async_raise(first, 1))
            scope.do(async_raise(second, 1))

    async def main():
        try:
            async with Scope() as scope:
                scope.do(async_raise(outer, 1))
                scope.do(inner())
        except Concurrent as err:
            caught.append(err)

    run(main(), till=10)
    assert len(caught) == 1, "expected exactly one Concurrent failure"
    check(caught[0], "nested scopes")


if __name__ == "__main__":
    try:
        direct()
        via_scopes()
    except AssertionError as err:
        print("FAIL:", err)
        sys.exit(1)
    print("OK")
