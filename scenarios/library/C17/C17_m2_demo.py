"""
C17 demo 2: ``flattened()`` preserves the leaf exceptions and their order.

The order only becomes observable when a *nested* ``Concurrent`` carries two or
more children (a nested failure with a single child flattens trivially).
"""
import sys
from usim import Concurrent


def leaves(exc):
    """Reference: depth-first, left-to-right leaf exceptions of ``exc``"""
    if isinstance(exc, Concurrent):
        return [leaf for child in exc.children for leaf in leaves(child)]
    return [exc]


def check(failure):
    expected = leaves(failure)
    flat = failure.flattened()
    got = list(flat.children)
    assert not any(isinstance(child, Concurrent) for child in got), (
        f"flattened() of {failure!r} still contains nested Concurrent: {got}"
    )
    assert len(got) == len(expected) and all(
        a is b for a, b in zip(got, expected)
    ), (
        f"flattened() of {failure!r} does not preserve leaves and their order:"
        f" expected {expected}, got {got}"
    )
    # the flat type is determined by the set of leaf types only
    assert type(flat) is Concurrent[tuple(type(leaf) for leaf in expected)], (
        f"flattened() of {failure!r} has type {type(flat)}"
    )


def main():
    a, b, c, d, e = (
        KeyError('a'), IndexError('b'), ValueError('c'), TypeError('d'), KeyError('e')
    )
    # cases with single-child nesting
    check(Concurrent(a, b, c))
    check(Concurrent(Concurrent(a), b, c))
    check(Concurrent(a, Concurrent(b), c))
    check(Concurrent(Concurrent(Concurrent(a)), Concurrent(b)))
    # nested failure with several children
    check(Concurrent(Concurrent(a, b), c))
    check(Concurrent(a, Concurrent(b, c), d))
    check(Concurrent(Concurrent(a, b), Concurrent(c, d), e))
    # deep nesting with several children per level
    check(Concurrent(a, Concurrent(b, Concurrent(c, d), e)))
    print("ok")


if __name__ == "__main__":
    try:
        main()
    except AssertionError as err:
        print("PROPERTY C17 VIOLATED:", err, file=sys.stderr)
        sys.exit(1)
