"""
C16 demo: activities aborted by first()/collect() must not run any code afterwards,
even when the aborted activity is itself a collect() that is waiting for its parts.

Run as:  PYTHONPATH=<tree> timeout 20 /venv/bin/python demo.py
"""
import sys
import signal

from usim import run, time, first, collect, Concurrent

signal.alarm(15)  # a hang must never block

log = []


async def part(name, delay, result):
    log.append(('start', name, time.now))
    await (time + delay)
    log.append(('resume', name, time.now))
    return result


async def quick(delay, result):
    await (time + delay)
    return result


async def failing(delay):
    await (time + delay)
    raise KeyError('boom')


def late_entries(after):
    return [entry for entry in log if entry[2] > after]


async def scenario_first():
    """first(): the loser is a nested collect() waiting for its parts"""
    del log[:]
    start = time.now
    got = []
    async for winner in first(
        collect(part('a', 5, 'A'), part('b', 7, 'B')),
        quick(1, 'Q'),
    ):
        got.append((winner, time.now - start))
    assert got == [('Q', 1)], f"first() gave wrong result/time: {got}"
    await (time + 20)  # leave time for anything that wrongly survived
    late = late_entries(after=start + 1)
    assert not late, (
        f"first(): code of aborted activities ran after the abort at "
        f"t={start + 1}: {late}"
    )


async def scenario_collect():
    """collect(): a sibling of the failing activity is a nested collect()"""
    del log[:]
    start = time.now
    try:
        await collect(
            collect(part('c', 5, 'C'), part('d', 7, 'D')),
            failing(1),
        )
    except Concurrent[KeyError]:
        assert time.now == start + 1, f"failure raised at wrong time {time.now}"
    else:
        raise AssertionError("collect() did not raise the failure")
    await (time + 20)
    late = late_entries(after=start + 1)
    assert not late, (
        f"collect(): code of aborted activities ran after the failure: {late}"
    )


async def scenario_plain():
    """sanity: non-nested abort and regular results"""
    del log[:]
    start = time.now
    assert await collect(part('e', 3, 'E'), part('f', 0, 'F'), part('g', 3, 'G')) \
        == ['E', 'F', 'G']
    assert time.now == start + 3
    del log[:]
    start = time.now
    got = []
    async for winner in first(
        part('h', 2, 'H'), part('i', 4, 'I'), part('j', 2, 'J'), count=2
    ):
        got.append((winner, time.now - start))
    assert got == [('H', 2), ('J', 2)], got
    await (time + 20)
    assert not late_entries(after=start + 2), late_entries(after=start + 2)


async def main():
    await scenario_plain()
    await scenario_first()
    await scenario_collect()


if __name__ == '__main__':
    try:
        run(main())
    except AssertionError as err:
        print('FAIL:', err)
        sys.exit(1)
    print('OK')
