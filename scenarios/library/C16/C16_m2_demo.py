"""
C16 demo: first(..., count=k) stops after exactly k results and aborts the rest.
This must hold for every count, including count=0 (no results wanted at all):
the iterator must finish at once without results and abort all activities.
"""
import sys
from usim import run, time, first

log = []


async def worker(name, delay, steps=3):
    for step in range(steps):
        log.append((time.now, name, step))
        await (time + delay / steps)
    log.append((time.now, name, 'end'))
    return name


async def check(count, durations, expected):
    log.clear()
    start = time.now
    activities = [worker(f'w{d}', d) for d in durations]
    results = []
    async for winner in first(*activities, count=count):
        results.append((time.now - start, winner))
    stop = time.now
    assert results == expected, (
        f"first(<{len(durations)} activities>, count={count}) yielded {results}"
        f" but expected {expected}"
    )
    expected_stop = expected[-1][0] if expected else 0
    assert stop - start == expected_stop, (
        f"first(count={count}) finished after {stop - start}"
        f" but expected {expected_stop}"
    )
    await (time + 30)
    late = [entry for entry in log if entry[0] > stop]
    assert not late, (
        f"first(count={count}) finished at t={stop}"
        f" but its activities still ran afterwards: {late}"
    )


async def main():
    await check(None, (3, 6, 9), [(3, 'w3'), (6, 'w6'), (9, 'w9')])
    await check(3, (9, 6, 3), [(3, 'w3'), (6, 'w6'), (9, 'w9')])
    await check(2, (9, 3, 6), [(3, 'w3'), (6, 'w6')])
    await check(1, (9, 3, 6), [(3, 'w3')])
    await check(0, (), [])
    await check(0, (3, 6, 9), [])
    await check(0, (3,), [])


if __name__ == '__main__':
    try:
        run(main())
    except AssertionError as err:
        print("C16 VIOLATED:", err)
        sys.exit(1)
    print("ok")
