"""
C16 demo: activities aborted by first()/collect() must not run any code afterwards,
even if the aborted activity is itself a collect() that is waiting for its own
activities at the moment of the abort.
"""
import sys
from usim import run, time, first, collect, Concurrent

log = []


async def worker(name, delay, steps=3, fail=None):
    for step in range(steps):
        log.append((time.now, name, step))
        await (time + delay / steps)
    log.append((time.now, name, 'end'))
    if fail is not None:
        raise fail
    return name


async def scenario_first():
    """first() picks 'z' at t=3 and must abort the nested collect(x, y)"""
    log.clear()
    start = time.now
    winners = []
    async for winner in first(
        collect(worker('x', 6), worker('y', 9)), worker('z', 3),
    ):
        winners.append((time.now - start, winner))
    assert winners == [(3, 'z')], f"first() gave wrong result/time: {winners}"
    stop = time.now
    await (time + 30)
    late = [entry for entry in log if entry[0] > stop]
    assert not late, (
        f"first() finished at t={stop} but aborted activities still ran: {late}"
    )


async def scenario_collect():
    """collect() fails at t=3 and must abort the nested collect(x, y)"""
    log.clear()
    start = time.now
    try:
        await collect(
            collect(worker('x', 6), worker('y', 9)),
            worker('f', 3, fail=KeyError('f')),
        )
    except Concurrent[KeyError]:
        pass
    else:
        raise AssertionError("collect() did not raise the failure")
    stop = time.now
    assert stop - start == 3, f"collect() failed at {stop - start}, expected 3"
    await (time + 30)
    late = [entry for entry in log if entry[0] > stop]
    assert not late, (
        f"collect() failed at t={stop} but aborted activities still ran: {late}"
    )


async def main():
    await scenario_first()
    await scenario_collect()


if __name__ == '__main__':
    try:
        run(main())
    except AssertionError as err:
        print("C16 VIOLATED:", err)
        sys.exit(1)
    print("ok")
