"""C20: a zero-volume Pipe.transfer lets other runnable activities run first (fixed by a5c6401)."""
import sys
from usim import run, Scope, Pipe
log = []
async def other():
    log.append("other")
async def main():
    pipe = Pipe(throughput=2)
    async with Scope() as scope:
        scope.do(other())
        await pipe.transfer(total=0)
        log.append("transfer done")
    assert log == ["other", "transfer done"], "zero-volume transfer did not yield: %s" % log
try:
    run(main())
except AssertionError as e:
    print("VIOLATION:", e); sys.exit(1)
sys.exit(0)
