"""C06/C04/C03: cancelling / closing a task before its first activation runs none of its code (fixed by 9ebbdaa)."""
import sys
from usim import run, Scope, time, TaskState
ran = []
async def payload():
    ran.append("payload")
    await (time + 1)
async def main():
    async with Scope() as scope:
        task = scope.do(payload())
        assert task.status == TaskState.CREATED, "unstarted task reports %s" % task.status
        task.cancel()
    assert ran == [], "cancelled-before-start task ran: %s" % ran
try:
    run(main())
except AssertionError as e:
    print("VIOLATION:", e); sys.exit(1)
except RuntimeError as e:
    print("VIOLATION: kernel failure:", e); sys.exit(1)
sys.exit(0)
