from usim.py import Environment
from usim.py.resources.resource import PriorityResource
order = []
def user(env, res, name, prio, hold):
    with res.request(priority=prio) as req:
        yield req
        order.append(name)
        yield env.timeout(hold)
def main(env, res):
    # occupy
    env.process(user(env, res, 'first', 0, 10))
    yield env.timeout(1)
    env.process(user(env, res, 'low', 5, 1))
    yield env.timeout(1)
    env.process(user(env, res, 'mid', 3, 1))
    yield env.timeout(1)
    env.process(user(env, res, 'high', 1, 1))
env = Environment()
res = PriorityResource(env, capacity=1)
env.process(main(env, res))
env.run(until=50)
print(order, type(res.put_queue))
assert order == ['first', 'high', 'mid', 'low'], order
