"""C07/C08 (known finding D3): `async with until(a | b)` never fires.
The block subscribes to the connective object itself, whose waiter list is never triggered; the block runs to its
own completion (time 10) although the notification held from time 1 on."""
import sys
import usim
from usim import Flag, Scope, time, until
log = []
async def setter(a):
    await (time + 1)
    await a.set()
async def main():
    a, b = Flag(), Flag()
    async with Scope() as scope:
        scope.do(setter(a))
        async with until(a | b):
            await (time + 10)
        log.append(("left block", time.now))
usim.run(main())
if log != [("left block", 1)]:
    print("VIOLATION: until(a | b) did not end its block at time 1 when `a` was set: %r" % (log,))
    sys.exit(1)
sys.exit(0)
