"""C17: issubclass(Concurrent, Concurrent[X]) answers False instead of raising (fixed by a879799)."""
import sys
from usim import Concurrent
try:
    assert issubclass(Concurrent, Concurrent[KeyError]) is False
    assert isinstance(Concurrent(), Concurrent[KeyError, ...]) is False
except TypeError as e:
    print("VIOLATION: TypeError:", e); sys.exit(1)
sys.exit(0)
