"""C13: a cancelled transfer stops occupying bandwidth (fixed by 6bb48fc)."""
import sys
from usim import run, time, Scope, Pipe
async def main():
    pipe = Pipe(throughput=2)
    async with Scope() as scope:
        t = scope.do(pipe.transfer(total=100, throughput=2))
        await (time + 1)
        t.cancel()
    start = time.now
    await pipe.transfer(total=2, throughput=2)
    assert time.now - start == 1, "cancelled transfer still occupies bandwidth: probe took %s" % (time.now - start)
try:
    run(main())
except AssertionError as e:
    print("VIOLATION:", e); sys.exit(1)
sys.exit(0)
