"""C01/C03/C07: until(time >= date) with date <= now must not fail inside the kernel (fixed by 785bfe3)."""
import sys
from usim import run, time, until
async def main():
    await (time + 5)
    async with until(time >= 3):
        await (time + 10)
    assert time.now == 5, "until(time >= past) must end the block in the current time step, ended at %s" % time.now
try:
    run(main())
except AssertionError as e:
    print("VIOLATION:", e); sys.exit(1)
sys.exit(0)
