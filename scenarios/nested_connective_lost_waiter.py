"""C08 (known finding D3): a waiter of a nested connective is lost.
`await ((a | b) & c)`: the outer All parks the waiter on the inner Any, but nothing ever triggers a connective's own
waiter list, so when `a` is set (the expression becomes true at time 2) the waiter is not woken."""
import sys
import usim
from usim import Flag, Scope, time
log = []
async def setter(a, c):
    await (time + 1)
    await c.set()
    await (time + 1)
    await a.set()
async def main():
    a, b, c = Flag(), Flag(), Flag()
    async with Scope() as scope:
        scope.do(setter(a, c))
        await ((a | b) & c)
        log.append(("resumed", time.now))
usim.run(main())
if log != [("resumed", 2)]:
    print("VIOLATION: waiter of ((a | b) & c) was not resumed at time 2 when the condition became true: %r" % (log,))
    sys.exit(1)
sys.exit(0)
