"""C07/C01: until(time == date) with date < now must never fire (fixed by 62f4a1c)."""
import sys
from usim import run, time, until
async def main():
    await (time + 5)
    async with until(time == 2):
        await (time + 10)
    assert time.now == 15, "until(time == past) fired at %s although the moment can never hold again" % time.now
try:
    run(main())
except AssertionError as e:
    print("VIOLATION:", e); sys.exit(1)
sys.exit(0)
