"""C01: scope.do(..., at=0) in a simulation started before 0 runs its payload at exactly 0 (fixed by a8cb31d)."""
import sys
import usim
seen = []
async def act():
    seen.append(usim.time.now)
async def main():
    async with usim.Scope() as scope:
        scope.do(act(), at=0)
try:
    usim.run(main(), start=-5)
    assert seen == [0], "payload of scope.do(at=0) under run(start=-5) ran at %s" % seen
except AssertionError as e:
    print("VIOLATION:", e); sys.exit(1)
sys.exit(0)
