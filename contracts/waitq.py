"""K1: both wait-queue back ends refine the abstract WaitQueue view (C01 time order, C02 FIFO per date).

view(q): for every date k the FIFO `qitems[k][0 .. qlen[k])` of activations; qlen[k] == 0 means "no entry for k".
push(k, a) appends a at the end of date k's FIFO; pop() removes and returns the whole FIFO of the SMALLEST date.
"""
from pyvc.dsl import *
from contracts import kernel as _k   # noqa: F401
from contracts.kernel import ACT

default_scope(["HQWaitQueue", "SDWaitQueue"])

VIEW_GHOST = {"qlen": MAP(REAL, INT), "qitems": MAP(REAL, MAP(INT, ACT))}

# coupling between the concrete representation and the view
COUPLING = [
    ("view_len", "forall(real, lambda k: self.qlen[k] == ite(k in self._data, len(self._data[k]), 0))"),
    ("view_items", "forall(real, lambda k: forall(int, lambda i: implies(k in self._data and 0 <= i and i < len(self._data[k]), "
                   "self.qitems[k][i] == self._data[k][i])))"),
    ("no_empty_fifo", "forall(real, lambda k: implies(k in self._data, len(self._data[k]) >= 1))"),
]

PUSH_ENSURES = ["self.qlen == store(old(self.qlen), key, old(self.qlen)[key] + 1)",
                "self.qitems == store(old(self.qitems), key, store(old(self.qitems)[key], old(self.qlen)[key], item))"]
PUSH_GHOST = ["self.qitems = store(self.qitems, key, store(self.qitems[key], self.qlen[key], item))\n"
              "self.qlen = store(self.qlen, key, self.qlen[key] + 1)"]
# pop: the smallest date that has an entry, with its complete FIFO in insertion order; only that date is removed
POP_ENSURES = ["old(self.qlen)[result[0]] >= 1",
               "forall(real, lambda k: implies(old(self.qlen)[k] >= 1, result[0] <= k))",
               "len(result[1]) == old(self.qlen)[result[0]]",
               "forall(int, lambda i: implies(0 <= i and i < len(result[1]), result[1][i] == old(self.qitems)[result[0]][i]))",
               "self.qlen == store(old(self.qlen), result[0], 0)"]
POP_GHOST = ["self.qlen = store(self.qlen, result[0], 0)"]
NONEMPTY = "exists(real, lambda k: self.qlen[k] >= 1)"

# ------------------------------------------------------------------------------------------------ heap + dict back end
model("HQWaitQueue", module="usim._core.waitq",
      fields={"_data": DICT(REAL, LIST(ACT)), "_keys": LIST(REAL)}, view="WaitQueue")
for _n, _cl in COUPLING:
    invariant("HQWaitQueue", _n, _cl, props=["C01", "C02"])
invariant("HQWaitQueue", "heap_order", "is_heap(self._keys)", props=["C01"])
invariant("HQWaitQueue", "keys_are_dates", "forall(real, lambda k: bag(self._keys)[k] == ite(k in self._data, 1, 0))", props=["C01"])

contract("usim._core.waitq.HQWaitQueue.__init__",
         params={"self": REF("HQWaitQueue")},
         ensures=["forall(real, lambda k: self.qlen[k] == 0)"],
         ghost_exit=["self.qlen = zero_map(self.qlen)"],
         modifies=["HQWaitQueue._data@self", "HQWaitQueue._keys@self", "WaitQueue.qlen@self"],
         props=["C01", "C02"])

# ensures[0] is a lemma for ensures[1] (chain_ensures: proved first, then usable): it names the witness date of a non-empty
# key heap -- its first element -- as a ground term.  Without it the solver has to guess that witness through two nested
# quantifiers (keys_are_dates, the bag axioms), which it did within anything between 1 s and not at all.
contract("usim._core.waitq.HQWaitQueue.__bool__", pure=True,
         params={"self": REF("HQWaitQueue")}, returns=BOOL,
         ensures=["implies(len(self._keys) >= 1, bag(self._keys)[self._keys[0]] >= 1 and self._keys[0] in self._data "
                  "and self.qlen[self._keys[0]] >= 1)",
                  "result == " + NONEMPTY], chain_ensures=True, modifies=[], props=["C01", "C15"])

contract("usim._core.waitq.HQWaitQueue.push",
         params={"self": REF("HQWaitQueue"), "key": REAL, "item": ACT},
         ensures=PUSH_ENSURES, ghost_exit=PUSH_GHOST,
         modifies=["HQWaitQueue._data@self", "HQWaitQueue._keys@self", "WaitQueue.qlen@self", "WaitQueue.qitems@self"],
         props=["C01", "C02"])

contract("usim._core.waitq.HQWaitQueue.pop",
         params={"self": REF("HQWaitQueue")},
         requires=[NONEMPTY],
         ensures=POP_ENSURES, ghost_exit=POP_GHOST,
         modifies=["HQWaitQueue._data@self", "HQWaitQueue._keys@self", "WaitQueue.qlen@self"],
         props=["C01", "C02"])

# ------------------------------------------------------------------------------------------------ SortedDict back end
model("SDWaitQueue", module="usim._core.waitq",
      fields={"_data": SORTED_DICT(REAL, LIST(ACT))}, view="WaitQueue")
for _n, _cl in COUPLING:
    invariant("SDWaitQueue", _n, _cl, props=["C01", "C02"])

contract("usim._core.waitq.SDWaitQueue.__init__",
         params={"self": REF("SDWaitQueue")},
         ensures=["forall(real, lambda k: self.qlen[k] == 0)"],
         ghost_exit=["self.qlen = zero_map(self.qlen)"],
         modifies=["SDWaitQueue._data@self", "WaitQueue.qlen@self"],
         props=["C01", "C02"])

contract("usim._core.waitq.SDWaitQueue.__bool__", pure=True,
         params={"self": REF("SDWaitQueue")}, returns=BOOL,
         ensures=["result == " + NONEMPTY], modifies=[], props=["C01", "C15"])

contract("usim._core.waitq.SDWaitQueue.push",
         params={"self": REF("SDWaitQueue"), "key": REAL, "item": ACT},
         ensures=PUSH_ENSURES, ghost_exit=PUSH_GHOST,
         modifies=["SDWaitQueue._data@self", "WaitQueue.qlen@self", "WaitQueue.qitems@self"],
         props=["C01", "C02"])

contract("usim._core.waitq.SDWaitQueue.pop",
         params={"self": REF("SDWaitQueue")},
         requires=[NONEMPTY],
         ensures=POP_ENSURES, ghost_exit=POP_GHOST,
         modifies=["SDWaitQueue._data@self", "WaitQueue.qlen@self"],
         props=["C01", "C02"])
