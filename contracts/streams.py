"""C10 Queue / C11 Channel."""
from pyvc.dsl import *
from contracts import locks as _l   # noqa: F401

DEAD_NEW = "forall_new(Interrupt, lambda i: i.sub is None and (i._revoked or not i.scheduled))"
default_scope(["Notification", "Interrupt.parked_or_scheduled", "Lock", "Interrupt.live_lock_wakeup_is_owner", "Queue"])


from pyvc.dsl import REG
REG.models["Notification"].ghost["queue"] = OPT(REF("Queue"))
REG.models["Notification"].ghost_defaults["queue"] = None
REG.models["Notification"].final.add("queue")

model("Queue", module="usim._basics.streams",
      fields={"_buffer": LIST(ANY), "_notification": REF("Notification"), "_read_mutex": REF("Lock"), "_closed": BOOL},
      final=["_notification", "_read_mutex"])

invariant("Queue", "wellformed",
          "self._notification is not None and self._read_mutex is not None and self._notification.lock is None "
          "and self._notification.queue is self and exact_class(self._notification, Notification) "
          "and self._read_mutex._notification is not self._notification", props=["C10"])
# only the holder of the read mutex ever waits for a message
invariant("Queue", "single_reader",
          "forall(self._notification._waiting, lambda w: w[0] is self._read_mutex._owner) and len(self._notification._waiting) <= 1 "
          "and implies(len(self._notification._waiting) > 0, self._notification._waiting[0][0] is self._read_mutex._owner)",
          props=["C10"])

contract("usim._basics.streams.Queue.__init__",
         params={"self": REF("Queue")},
         requires=["forall(Notification, lambda n: n.lock is not self and n.queue is not self)"],
         ensures=["len(self._buffer) == 0", "not self._closed", "self._read_mutex._owner is None",
                  "len(self._notification._waiting) == 0"],
         ghost_exit=["self._notification.queue = self"],
         modifies=["Queue._buffer@self", "Queue._notification@self", "Queue._read_mutex@self", "Queue._closed@self",
                   "Notification._waiting", "Notification.lock", "Notification.queue", "Lock._notification", "Lock._owner", "Lock._depth", "Lock.grant"],
         unexpected_ok=[], props=["C10"])

contract("usim._basics.streams.Queue.put",
         params={"self": REF("Queue"), "item": ANY},
         requires=["loop.activity is me"],
         suspends=(1, None),
         raises={"StreamClosed": dict(when="self._closed", suspended=False,
                                      ensures=["self._buffer == old(self._buffer)", "loop._pending == old(loop._pending)"])},
         # accepted items are appended at the tail, and the oldest waiting receiver is woken, before the producer yields
         at_suspension=["self._buffer == old(self._buffer) + [item]", "not self._closed"],
         ensures=["loop.activity is me"],
         on_signal=["loop.activity is me"], on_close=[],
         on_exit=[DEAD_NEW],
         guarantee=['unchanged_except("Queue._buffer", self)',
                    "implies(old(self._read_mutex._owner) is not me or old(self._read_mutex._depth) < 1, "
                    "        len(self._buffer) >= len(old(self._buffer)) and self._buffer[:len(old(self._buffer))] == old(self._buffer))"],
         props=["C10", "C20"])

contract("usim._basics.streams.Queue.close",
         params={"self": REF("Queue")},
         requires=["loop.activity is me"],
         suspends=(1, None),
         at_suspension=["self._closed", "self._buffer == old(self._buffer)",
                        "implies(not old(self._closed), len(self._notification._waiting) == 0)"],
         ensures=["loop.activity is me"],
         on_signal=["loop.activity is me"], on_close=[],
         on_exit=[DEAD_NEW],
         props=["C10", "C20"])

contract("usim._basics.streams.Queue._await_message",
         params={"self": REF("Queue")}, returns=ANY,
         requires=["loop.activity is me",
                   "self._read_mutex._owner is not me"],
         asserts={1: "assumed"},     # `assert self._closed` after an empty wake-up: not proved (see DESIGN, C10 gaps)
         suspends=(1, None),
         # commit clause: the item handed out is the head of the buffer as it was at the receiver's last suspension,
         # and exactly that item is removed -- nothing happens between taking it and returning it
         ensures=["len(at_last_suspension(self._buffer)) > 0",
                  "result is at_last_suspension(self._buffer)[0]",
                  "self._buffer == at_last_suspension(self._buffer)[1:]",
                  "self._read_mutex._owner is not me"],
         raises={"StreamClosed": dict(ensures=["self._closed", "len(self._buffer) == 0",
                                               "self._buffer == at_last_suspension(self._buffer)",
                                               "self._read_mutex._owner is not me"])},
         # cancelled / interrupted / closed at any suspension: no item is lost or duplicated, the mutex is given up
         on_signal=["self._buffer == at_last_suspension(self._buffer)", "self._read_mutex._owner is not me"],
         on_exit=[DEAD_NEW],
         guarantee=['unchanged_except("Queue._buffer", self)',
                    "implies(old(self._read_mutex._owner) is not me or old(self._read_mutex._depth) < 1, "
                    "        len(self._buffer) >= len(old(self._buffer)) and self._buffer[:len(old(self._buffer))] == old(self._buffer))"],
         props=["C10", "C20"])

rely("Queue", [], "self._read_mutex._owner is me and self._read_mutex._depth >= 1",
     ensures="len(self._buffer) >= len(old(self._buffer)) and self._buffer[:len(old(self._buffer))] == old(self._buffer)",
     why="guarantee clause of Queue.put/_await_message: only the holder of the read mutex removes items")
