"""C10 Queue / C11 Channel."""
from pyvc.dsl import *
from contracts import locks as _l   # noqa: F401

DEAD_NEW = "forall_new(Interrupt, lambda i: i.sub is None and (i._revoked or not i.scheduled))"
default_scope(["Notification", "Interrupt.parked_or_scheduled", "Lock", "Interrupt.live_lock_wakeup_is_owner", "Queue"])


from pyvc.dsl import REG
REG.models["Notification"].ghost["queue"] = OPT(REF("Queue"))
REG.models["Notification"].ghost_defaults["queue"] = None
REG.models["Notification"].final.add("queue")

model("Queue", module="usim._basics.streams",
      fields={"_buffer": LIST(ANY), "_notification": REF("Notification"), "_read_mutex": REF("Lock"), "_closed": BOOL},
      final=["_notification", "_read_mutex"])

invariant("Queue", "wellformed",
          "self._notification is not None and self._read_mutex is not None and self._notification.lock is None "
          "and self._notification.queue is self and exact_class(self._notification, Notification) "
          "and self._read_mutex._notification is not self._notification", props=["C10"])
# only the holder of the read mutex ever waits for a message
invariant("Queue", "single_reader",
          "forall(self._notification._waiting, lambda w: w[0] is self._read_mutex._owner) and len(self._notification._waiting) <= 1 "
          "and implies(len(self._notification._waiting) > 0, self._notification._waiting[0][0] is self._read_mutex._owner)",
          props=["C10"])

contract("usim._basics.streams.Queue.__init__",
         params={"self": REF("Queue")},
         requires=["forall(Notification, lambda n: n.lock is not self and n.queue is not self)"],
         ensures=["len(self._buffer) == 0", "not self._closed", "self._read_mutex._owner is None",
                  "len(self._notification._waiting) == 0",
                  # nothing that existed before is touched
                  'only_new_changed("Notification._waiting")', 'only_new_changed("Notification.lock")',
                  'only_new_changed("Notification.queue")', 'only_new_changed("Lock._notification")',
                  'only_new_changed("Lock._owner")', 'only_new_changed("Lock._depth")', 'only_new_changed("Lock.grant")'],
         ghost_exit=["self._notification.queue = self"],
         modifies=["Queue._buffer@self", "Queue._notification@self", "Queue._read_mutex@self", "Queue._closed@self",
                   "Notification._waiting", "Notification.lock", "Notification.queue", "Lock._notification", "Lock._owner", "Lock._depth", "Lock.grant"],
         unexpected_ok=[], props=["C10"])

contract("usim._basics.streams.Queue.put",
         params={"self": REF("Queue"), "item": ANY},
         requires=["loop.activity is me"],
         suspends=(1, None),
         raises={"StreamClosed": dict(when="self._closed", suspended=False,
                                      ensures=["self._buffer == old(self._buffer)", "loop._pending == old(loop._pending)"])},
         # accepted items are appended at the tail, and the oldest waiting receiver is woken, before the producer yields
         at_suspension=["self._buffer == old(self._buffer) + [item]", "not self._closed"],
         ensures=["loop.activity is me"],
         on_signal=["loop.activity is me"], on_close=[],
         on_exit=[DEAD_NEW],
         guarantee=['unchanged_except("Queue._buffer", self)',
                    "implies(old(self._read_mutex._owner) is not me or old(self._read_mutex._depth) < 1, "
                    "        len(self._buffer) >= len(old(self._buffer)) and self._buffer[:len(old(self._buffer))] == old(self._buffer))"],
         props=["C10", "C20", "C16"])

contract("usim._basics.streams.Queue.close",
         params={"self": REF("Queue")},
         requires=["loop.activity is me"],
         suspends=(1, None),
         at_suspension=["self._closed", "self._buffer == old(self._buffer)",
                        "implies(not old(self._closed), len(self._notification._waiting) == 0)"],
         ensures=["loop.activity is me"],
         on_signal=["loop.activity is me"], on_close=[],
         on_exit=[DEAD_NEW],
         props=["C10", "C20"])

contract("usim._basics.streams.Queue._await_message",
         params={"self": REF("Queue")}, returns=ANY,
         requires=["loop.activity is me",
                   "self._read_mutex._owner is not me"],
         asserts={1: "assumed"},     # `assert self._closed` after an empty wake-up: not proved (see DESIGN, C10 gaps)
         suspends=(1, None),
         # commit clause: the item handed out is the head of the buffer as it was at the receiver's last suspension,
         # and exactly that item is removed -- nothing happens between taking it and returning it
         ensures=["len(at_last_suspension(self._buffer)) > 0",
                  "result is at_last_suspension(self._buffer)[0]",
                  "self._buffer == at_last_suspension(self._buffer)[1:]",
                  "self._read_mutex._owner is not me"],
         raises={"StreamClosed": dict(ensures=["self._closed", "len(self._buffer) == 0",
                                               "self._buffer == at_last_suspension(self._buffer)",
                                               "self._read_mutex._owner is not me", "loop.activity is me"])},
         # cancelled / interrupted / closed at any suspension: no item is lost or duplicated, the mutex is given up
         on_signal=["self._buffer == at_last_suspension(self._buffer)", "self._read_mutex._owner is not me"],
         on_exit=[DEAD_NEW],
         guarantee=['unchanged_except("Queue._buffer", self)',
                    "implies(old(self._read_mutex._owner) is not me or old(self._read_mutex._depth) < 1, "
                    "        len(self._buffer) >= len(old(self._buffer)) and self._buffer[:len(old(self._buffer))] == old(self._buffer))"],
         props=["C10", "C20", "C16"])

rely("Queue", [], "self._read_mutex._owner is me and self._read_mutex._depth >= 1",
     ensures="len(self._buffer) >= len(old(self._buffer)) and self._buffer[:len(old(self._buffer))] == old(self._buffer)",
     why="guarantee clause of Queue.put/_await_message: only the holder of the read mutex removes items")


# ====================================================================================================== Channel (C11)
# Every consumer registers a private buffer under a fresh sentinel key; `put` appends the message to every registered
# buffer; a consumer only ever removes items from the front of its own buffer and unregisters exactly its own key.
model("Channel", module="usim._basics.streams",
      fields={"_consumer_buffers": DICT(ANY, LIST(ANY)), "_notification": REF("Notification"), "_closed": BOOL},
      final=["_notification"])

invariant("Channel", "wellformed",
          "self._notification is not None and self._notification.lock is None and self._notification.queue is None "
          "and exact_class(self._notification, Notification)", props=["C11"])

CH_SCOPE = ["Notification", "Interrupt.parked_or_scheduled", "Channel"]

# what any code may do to a buffer it did not register itself: append at its end (old content stays a prefix),
# and never unregister it
def _grow_only(ch, cond):
    return ("forall(anything, lambda k: implies(%s and old(k in %s._consumer_buffers), "
            "k in %s._consumer_buffers and len(%s._consumer_buffers[k]) >= len(old(%s._consumer_buffers[k])) and "
            "%s._consumer_buffers[k][:len(old(%s._consumer_buffers[k]))] == old(%s._consumer_buffers[k])))"
            % ((cond,) + (ch,) * 7))

G_CHANNEL = "forall(Channel, lambda c: " + _grow_only("c", "not mine(k)") + ")"

rely("Channel", [], "True", ensures=_grow_only("self", "mine(k)"),
     why="guarantee clause of every function that touches Channel._consumer_buffers (put, close, __await__, __aiter__): "
         "a buffer registered by another invocation is only appended to and never unregistered")
rely("Channel", [], "self._closed", ensures="self._closed", why="Channel._closed is only ever set to True")

# protocol fact that is NOT proved (the Channel analogue of Queue's `assert self._closed`): a consumer woken through the
# channel's notification finds a message in its buffer or the channel closed.  Supported by the at_suspension clauses of
# put (every registered buffer got the item before the waiters were woken) and close (closed before waking), and by
# the grow-only rely; the link between a wake-up signal and the buffer of its waiter is left to the paper argument.
WOKEN_HAS_MESSAGE = ("implies(mine(sig), self._closed or forall(anything, lambda k: implies(mine(k) and k in self._consumer_buffers, "
                     "len(self._consumer_buffers[k]) > 0)))")

contract("usim._basics.streams.Channel.__init__",
         params={"self": REF("Channel")}, inv_scope=CH_SCOPE,
         requires=["forall(Notification, lambda n: n.lock is not self and n.queue is not self)"],
         ensures=["not self._closed", "len(self._notification._waiting) == 0",
                  "forall(anything, lambda k: not (k in self._consumer_buffers))"],
         modifies=["Channel._consumer_buffers@self", "Channel._notification@self", "Channel._closed@self",
                   "Notification._waiting", "Notification.lock", "Notification.queue"],
         unexpected_ok=[], props=["C11"])

contract("usim._basics.streams.Channel.put",
         params={"self": REF("Channel"), "item": ANY}, inv_scope=CH_SCOPE,
         requires=["loop.activity is me"],
         suspends=(1, None),
         raises={"StreamClosed": dict(when="self._closed", suspended=False,
                                      ensures=["forall(anything, lambda k: (k in self._consumer_buffers) == old(k in self._consumer_buffers) "
                                               "and implies(k in self._consumer_buffers, self._consumer_buffers[k] == old(self._consumer_buffers[k])))",
                                               "loop._pending == old(loop._pending)"])},
         # broadcast: before the producer yields, every registered buffer has the item at its end, exactly once,
         # no buffer is added or removed, and every waiting consumer has been woken
         at_suspension=["forall(anything, lambda k: (k in self._consumer_buffers) == old(k in self._consumer_buffers))",
                        "forall(anything, lambda k: implies(k in self._consumer_buffers, "
                        "       self._consumer_buffers[k] == old(self._consumer_buffers[k]) + [item]))",
                        "len(self._notification._waiting) == 0", "not self._closed"],
         ensures=["loop.activity is me"],
         on_signal=["loop.activity is me"], on_close=[],
         on_exit=[DEAD_NEW],
         guarantee=[G_CHANNEL],
         props=["C11", "C20"])

contract("usim._basics.streams.Channel.close",
         params={"self": REF("Channel")}, inv_scope=CH_SCOPE,
         requires=["loop.activity is me"],
         suspends=(1, None),
         # pending messages stay where they are; every waiting consumer is woken when the channel becomes closed
         at_suspension=["self._closed",
                        "forall(anything, lambda k: (k in self._consumer_buffers) == old(k in self._consumer_buffers) "
                        "and implies(k in self._consumer_buffers, self._consumer_buffers[k] == old(self._consumer_buffers[k])))",
                        "implies(not old(self._closed), len(self._notification._waiting) == 0)"],
         ensures=["loop.activity is me"],
         on_signal=["loop.activity is me"], on_close=[],
         on_exit=[DEAD_NEW],
         guarantee=[G_CHANNEL],
         props=["C11", "C20"])

# await channel: one message -- the first one put after the wait started
contract("usim._basics.streams.Channel.__await__",
         params={"self": REF("Channel")}, returns=ANY, inv_scope=CH_SCOPE,
         requires=["loop.activity is me"],
         suspends=(1, None),
         raises={"StreamClosed": dict(ensures=["self._closed"])},
         # the message handed out is the head of the private buffer, i.e. the first one appended since registration
         ensures=["loop.activity is me",
                  "exists(anything, lambda k: mine(k) and exact_class(k, object) and at_last_suspension(k in self._consumer_buffers) and "
                  "len(at_last_suspension(self._consumer_buffers[k])) > 0 and result is at_last_suspension(self._consumer_buffers[k])[0])"],
         on_signal=["loop.activity is me"], on_close=[],
         # the private buffer is unregistered on every exit (return, StreamClosed, cancellation, close)
         on_exit=[DEAD_NEW, "forall(anything, lambda k: implies(mine(k) and exact_class(k, object), not (k in self._consumer_buffers)))"],
         # registered with an empty buffer before the first suspension
         at_suspension=["exists(anything, lambda k: mine(k) and exact_class(k, object) and k in self._consumer_buffers and "
                        "implies(suspensions() == 0, len(self._consumer_buffers[k]) == 0))"],
         assume_on_wakeup=[WOKEN_HAS_MESSAGE],
         guarantee=[G_CHANNEL],
         props=["C11", "C20"])

# async for message in channel: every step hands out the head of the private buffer and removes exactly it;
# the iteration ends only when the channel is closed and the private buffer is drained
contract("usim._basics.streams.Channel.__aiter__",
         params={"self": REF("Channel")}, inv_scope=CH_SCOPE,
         requires=["loop.activity is me"],
         suspends=(0, None),
         step_ensures=["exists(anything, lambda k: mine(k) and exact_class(k, object) and k in self._consumer_buffers and "
                       "len(at_last_suspension(self._consumer_buffers[k])) > 0 and "
                       "result is at_last_suspension(self._consumer_buffers[k])[0] and "
                       "self._consumer_buffers[k] == at_last_suspension(self._consumer_buffers[k])[1:])"],
         step_suspends=(0, None),
         # (the private list is read after it was unregistered: the list object itself is still alive)
         ensures=["self._closed",
                  "forall(anything, lambda k: implies(mine(k) and exact_class(k, object), len(self._consumer_buffers[k]) == 0))"],
         loop_invariants={"while#1": ["loop.activity is me", "sentinel in self._consumer_buffers", "mine(sentinel)"],
                          "while#2": ["loop.activity is me", "sentinel in self._consumer_buffers", "mine(sentinel)"]},
         on_signal=[], on_close=[],
         on_exit=[DEAD_NEW, "forall(anything, lambda k: implies(mine(k) and exact_class(k, object), not (k in self._consumer_buffers)))"],
         guarantee=[G_CHANNEL],
         props=["C11"])


# ---- Queue: the thin wrappers around _await_message (C10, C20)
AWAIT_MESSAGE = dict(
    requires=["loop.activity is me", "self._read_mutex._owner is not me"],
    suspends=(1, None),
    ensures=["len(at_last_suspension(self._buffer)) > 0",
             "result is at_last_suspension(self._buffer)[0]",
             "self._buffer == at_last_suspension(self._buffer)[1:]",
             "self._read_mutex._owner is not me"],
    raises={"StreamClosed": dict(ensures=["self._closed", "len(self._buffer) == 0",
                                          "self._buffer == at_last_suspension(self._buffer)",
                                          "self._read_mutex._owner is not me", "loop.activity is me"])},
    on_signal=["self._buffer == at_last_suspension(self._buffer)", "self._read_mutex._owner is not me"],
    on_exit=[DEAD_NEW])
contract("usim._basics.streams.Queue.__await__",
         params={"self": REF("Queue")}, returns=ANY,
         inv_scope=["Notification", "Interrupt.parked_or_scheduled", "Lock", "Interrupt.live_lock_wakeup_is_owner", "Queue"],
         props=["C10", "C20", "C16"], **AWAIT_MESSAGE)

# async for item in queue: every step hands out exactly one head item (and yields to the others at least once);
# the iteration ends only when the queue is closed and drained
contract("usim._basics.streams.Queue.__aiter__",
         params={"self": REF("Queue")},
         inv_scope=["Notification", "Interrupt.parked_or_scheduled", "Lock", "Interrupt.live_lock_wakeup_is_owner", "Queue"],
         requires=["loop.activity is me", "self._read_mutex._owner is not me"],
         suspends=(1, None),
         step_ensures=["len(at_last_suspension(self._buffer)) > 0",
                       "result is at_last_suspension(self._buffer)[0]",
                       "self._buffer == at_last_suspension(self._buffer)[1:]",
                       "self._read_mutex._owner is not me", "loop.activity is me"],
         step_suspends=(1, None),
         ensures=["self._closed", "len(self._buffer) == 0", "loop.activity is me", "self._read_mutex._owner is not me"],
         loop_invariants={"while#1": ["loop.activity is me", "self._read_mutex._owner is not me"]},
         on_signal=[], on_close=[],
         on_exit=[DEAD_NEW],
         props=["C10", "C20", "C16"])
