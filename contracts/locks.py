"""C09: Lock."""
from pyvc.dsl import *
from contracts import notification as _n   # noqa: F401  (Notification model, invariants)
from pyvc.dsl import REG
default_scope(["Notification", "Interrupt.parked_or_scheduled", "Lock", "Interrupt.live_lock_wakeup_is_owner", "Condition.not_a_lock_notification", "Queue"])


# ghost back pointer: the lock a notification serves (None for all other notifications); set once
REG.models["Notification"].ghost["lock"] = OPT(REF("Lock"))
REG.models["Notification"].ghost_defaults["lock"] = None
REG.models["Notification"].final.add("lock")

invariant("Condition", "not_a_lock_notification", "self.lock is None", props=["C09"])

model("Lock", module="usim._primitives.locks",
      fields={"_notification": REF("Notification"), "_owner": OPT(ANY), "_depth": INT},
      ghost={"grant": OPT(REF("Interrupt"))},       # wake-up of the designated owner (last hand-off)
      ghost_defaults={"grant": None},
      final=["_notification"])

invariant("Lock", "wellformed",
          "self._depth >= 0 and self._notification is not None and self._notification.lock is self "
          "and exact_class(self._notification, Notification)", props=["C09"])

kernel_fact("K10.not_parked_privately",
            "forall(Notification, lambda n: implies(n.lock is not None or n.queue is not None, "
            "       forall(n._waiting, lambda w: w[0] is not me) and "
            "       implies(len(n._waiting) > 0, n._waiting[0][0] is not me)))",
            on_resume="forall(Notification, lambda n: implies((n.lock is not None or n.queue is not None) "
                      "       and forall_new(Interrupt, lambda i: i.sub is not n), "
                      "       forall(n._waiting, lambda w: w[0] is not me)))",
            why="an activity parked in the private notification of a Lock/Queue is suspended inside that wait and "
                "unsubscribes before it runs anything else")
invariant("Lock", "free_is_idle",
          "implies(self._owner is None, len(self._notification._waiting) == 0 and self._depth == 0)", props=["C09"])
invariant("Lock", "waiters_not_owner",
          "forall(self._notification._waiting, lambda w: w[0] is not self._owner)", props=["C09"])
invariant("Lock", "waiters_distinct",
          "forall(int, lambda i, j: implies(0 <= i and i < j and j < len(self._notification._waiting), "
          "       self._notification._waiting[i][0] is not self._notification._waiting[j][0]))", props=["C09"])
invariant("Lock", "designated_has_live_wakeup",
          "implies(self._owner is not None and self._depth == 0, "
          "        self.grant is not None and self.grant.sub is self._notification and self.grant.scheduled "
          "        and not self.grant._revoked and self.grant.target is self._owner)", props=["C09", "C03"])
invariant("Interrupt", "live_lock_wakeup_is_owner",
          "implies(self.sub is not None and self.sub.lock is not None and self.scheduled and not self._revoked, "
          "        self.sub.lock._owner is not None and self.sub.lock._owner is self.target "
          "        and self.sub.lock._depth == 0 and self.sub.lock.grant is self)",
          props=["C09"])

contract("usim._primitives.locks.Lock.__init__",
         params={"self": REF("Lock")},
         requires=["forall(Notification, lambda n: n.lock is not self)", "forall(Interrupt, lambda i: i.sub is not self)"],
         ensures=["self._owner is None and self._depth == 0", "self._notification.lock is self",
                  "len(self._notification._waiting) == 0",
                  # everything that existed before is untouched (the private notification is new)
                  "forall(Notification, lambda n: implies(n is not self._notification, "
                  "       n._waiting == old(n._waiting) and n.lock is old(n.lock)))",
                  "exact_class(self._notification, Notification) and self._notification.queue is None",
                  "fresh_obj(self._notification)"],
         ghost_exit=["self._notification.lock = self\nself.grant = None"],
         modifies=["Lock._notification@self", "Lock._owner@self", "Lock._depth@self", "Lock.grant@self",
                   "Notification._waiting", "Notification.lock"],
         props=["C09"])

contract("usim._primitives.locks.Lock.available",
         params={"self": REF("Lock")}, returns=BOOL,
         ensures=["result == (self._owner is None or self._owner is loop.activity)"],
         modifies=[], pure=True, props=["C09"])

contract("usim._primitives.locks.Lock.__release__",
         params={"self": REF("Lock")},
         requires=["self._depth == 0"],
         ensures=[
             # FIFO hand-off: the oldest waiter becomes the (designated) owner, the others keep their order
             "implies(len(old(self._notification._waiting)) > 0, "
             "        self._owner is old(self._notification._waiting)[0][0] "
             "        and self._notification._waiting == old(self._notification._waiting)[1:] "
             "        and loop._pending == old(loop._pending) + [Activation(old(self._notification._waiting)[0][0], old(self._notification._waiting)[0][1])])",
             "implies(len(old(self._notification._waiting)) == 0, self._owner is None and loop._pending == old(loop._pending) "
             '        and unchanged("Interrupt.scheduled", "Interrupt.target", "Interrupt.due"))',
             "self._depth == 0"],
         ghost_exit=["self.grant = old(self._notification._waiting)[0][1] if len(old(self._notification._waiting)) > 0 else None"],
         modifies=["Lock._owner@self", "Lock.grant@self", "Notification._waiting@self._notification", "Loop._pending@loop",
                   "Interrupt.scheduled@self._notification._waiting[0][1]", "Interrupt.target@self._notification._waiting[0][1]",
                   "Interrupt.due@self._notification._waiting[0][1]", "Interrupt.pos"],
         inv_scope=["Notification", "Interrupt.parked_or_scheduled"], inline=True,
         note="called while the Lock invariants are temporarily broken (depth just reached 0 / designated owner gives up): "
              "verified for its hand-off postcondition; callers inline it and re-establish the Lock invariants themselves",
         props=["C09", "C10"])

contract("usim._primitives.locks.Lock.__aenter__",
         params={"self": REF("Lock")}, returns=REF("Lock"),
         requires=["loop.activity is me",
                   # kernel fact about the running activity: it is not a designated owner that has not been
                   # resumed yet (that would mean it is suspended in __aenter__)
                   "implies(self._owner is me, self._depth >= 1)"],
         asserts={1: "internal"},
         suspends=(0, None),
         ensures=["result is self", "self._owner is me", "loop.activity is me",
                  "self._depth == ite(old(self._owner) is me, old(self._depth) + 1, 1)"],
         # cancelled / interrupted / closed while waiting: I am neither owner nor waiter afterwards
         on_signal=["implies(old(self._owner) is not me, self._owner is not me)",
                    "forall(self._notification._waiting, lambda w: w[0] is not me)"],
         on_exit=["forall_new(Interrupt, lambda i: i.sub is None and (i._revoked or not i.scheduled))"],
         # G: a lock held by somebody else (depth >= 1) is never touched by my segments
         guarantee=["forall(Lock, lambda L: implies(old(L._owner) is not None and old(L._owner) is not me and old(L._depth) >= 1, "
                    "       L._owner is old(L._owner) and L._depth == old(L._depth)))"],
         props=["C09", "C10", "C20"])

contract("usim._primitives.locks.Lock.__aexit__",
         params={"self": REF("Lock"), "exc_type": ANY, "exc_val": ANY, "exc_tb": ANY}, returns=BOOL,
         requires=["self._owner is me", "self._depth >= 1"],
         asserts={1: "usage"},
         suspends=(0, 0),
         ensures=["result == False",
                  "implies(old(self._depth) > 1, self._owner is me and self._depth == old(self._depth) - 1 "
                  "        and self._notification._waiting == old(self._notification._waiting))",
                  "implies(old(self._depth) == 1 and len(old(self._notification._waiting)) == 0, self._owner is None and self._depth == 0)",
                  "implies(old(self._depth) > 1 or len(old(self._notification._waiting)) == 0, "
                  '        unchanged("Interrupt.scheduled", "Interrupt.target", "Interrupt.due") and loop._pending == old(loop._pending))',
                  "implies(old(self._depth) == 1 and len(old(self._notification._waiting)) > 0, "
                  "        loop._pending == old(loop._pending) + [Activation(old(self._notification._waiting)[0][0], old(self._notification._waiting)[0][1])])",
                  "implies(old(self._depth) == 1 and len(old(self._notification._waiting)) > 0, "
                  "        self._owner is old(self._notification._waiting)[0][0] and self._depth == 0 "
                  "        and self._notification._waiting == old(self._notification._waiting)[1:])"],
         modifies=["Lock._owner@self", "Lock._depth@self", "Lock.grant@self", "Notification._waiting@self._notification",
                   "Loop._pending@loop", "Interrupt.scheduled@self._notification._waiting[0][1]",
                   "Interrupt.target@self._notification._waiting[0][1]", "Interrupt.due@self._notification._waiting[0][1]", "Interrupt.pos"],
         unexpected_ok=["AssertionError"],
         guarantee=["forall(Lock, lambda L: implies(old(L._owner) is not None and old(L._owner) is not me and old(L._depth) >= 1, "
                    "       L._owner is old(L._owner) and L._depth == old(L._depth)))"],
         props=["C09", "C10"])

rely("Lock", ["_owner", "_depth"], "self._owner is me and self._depth >= 1",
     why="guarantee clause of Lock.__aenter__/__aexit__: nobody but the holder changes a held lock")
