"""C13 Pipe."""
from pyvc.dsl import *
from contracts import notification as _n   # noqa: F401

NS = ["Notification", "Interrupt.parked_or_scheduled"]
DEAD_NEW = "forall_new(Interrupt, lambda i: i.sub is None and (i._revoked or not i.scheduled))"
default_scope(NS + ["Pipe"])

model("Pipe", module="usim._basics.pipe",
      fields={"throughput": REAL, "_congested": REF("Notification"), "_throughput_scale": REAL, "_subscriptions": DICT(ANY, REAL)},
      final=["throughput", "_congested"])

# Inv_pipe: the scale is min(1, throughput / sum of active limits); limits are positive
invariant("Pipe", "scale",
          "self.throughput > 0 and self._congested is not None and self._congested.lock is None and self._congested.queue is None "
          "and exact_class(self._congested, Notification) "
          "and sum(self._subscriptions.values()) >= 0 and forall(anything, lambda k: implies(k in self._subscriptions, self._subscriptions[k] > 0)) and "
          "ite(sum(self._subscriptions.values()) > self.throughput, "
          "    self._throughput_scale * sum(self._subscriptions.values()) == self.throughput, self._throughput_scale == 1.0)",
          props=["C13"])

contract("usim._basics.pipe.Pipe._throttle_subscribers",
         params={"self": REF("Pipe")},
         requires=["self.throughput > 0", "sum(self._subscriptions.values()) >= 0"],
         ensures=["ite(sum(self._subscriptions.values()) > self.throughput, "
                  "    self._throughput_scale * sum(self._subscriptions.values()) == self.throughput, self._throughput_scale == 1.0)",
                  # every change of the scale wakes every transfer that is waiting in its window, in the same step
                  "implies(self._throughput_scale != old(self._throughput_scale), len(self._congested._waiting) == 0)",
                  "forall(Interrupt, lambda i: implies(old(i.sub) is not self._congested, i.scheduled == old(i.scheduled) and i.due == old(i.due)))",
                  'unchanged("Interrupt.target")'],
         modifies=["Pipe._throughput_scale@self", "Notification._waiting@self._congested", "Loop._pending@loop",
                   "Interrupt.scheduled", "Interrupt.target", "Interrupt.due"],
         inv_scope=NS, props=["C13"])

contract("usim._basics.pipe.Pipe.__init__",
         params={"self": REF("Pipe"), "throughput": REAL},
         requires=["throughput > 0"], asserts={1: "usage"},
         ensures=["self.throughput == throughput", "self._throughput_scale == 1.0", "len(self._subscriptions) == 0",
                  "sum(self._subscriptions.values()) == 0", "len(self._congested._waiting) == 0", "fresh_obj(self._congested)",
                  'only_new_changed("Notification._waiting")'],
         modifies=["Pipe.throughput@self", "Pipe._congested@self", "Pipe._throughput_scale@self", "Pipe._subscriptions@self", "Notification._waiting"],
         props=["C13"])

contract("usim._basics.pipe.Pipe._add_subscriber",
         params={"self": REF("Pipe"), "identifier": ANY, "throughput": REAL},
         requires=["throughput > 0", "identifier not in self._subscriptions"],
         ensures=["identifier in self._subscriptions", "self._subscriptions[identifier] == throughput",
                  "sum(self._subscriptions.values()) == old(sum(self._subscriptions.values())) + throughput",
                  "len(self._subscriptions) == old(len(self._subscriptions)) + 1",
                  "implies(self._throughput_scale != old(self._throughput_scale), len(self._congested._waiting) == 0)",
                  "forall(Interrupt, lambda i: implies(old(i.sub) is not self._congested, i.scheduled == old(i.scheduled) and i.due == old(i.due)))",
                  'unchanged("Interrupt.target")'],
         modifies=["Pipe._subscriptions@self", "Pipe._throughput_scale@self", "Notification._waiting@self._congested", "Loop._pending@loop",
                   "Interrupt.scheduled", "Interrupt.target", "Interrupt.due"],
         props=["C13"])

contract("usim._basics.pipe.Pipe._del_subscriber",
         params={"self": REF("Pipe"), "identifier": ANY},
         requires=["identifier in self._subscriptions"],
         ensures=["identifier not in self._subscriptions",
                  "sum(self._subscriptions.values()) == old(sum(self._subscriptions.values())) - old(self._subscriptions[identifier])",
                  "len(self._subscriptions) == old(len(self._subscriptions)) - 1",
                  "implies(self._throughput_scale != old(self._throughput_scale), len(self._congested._waiting) == 0)",
                  "forall(Interrupt, lambda i: implies(old(i.sub) is not self._congested, i.scheduled == old(i.scheduled) and i.due == old(i.due)))",
                  'unchanged("Interrupt.target")'],
         modifies=["Pipe._subscriptions@self", "Pipe._throughput_scale@self", "Notification._waiting@self._congested", "Loop._pending@loop",
                   "Interrupt.scheduled", "Interrupt.target", "Interrupt.due"],
         props=["C13"])

contract("usim._basics.pipe.Pipe.transfer",
         params={"self": REF("Pipe"), "total": REAL, "throughput": OPT(REAL)},
         requires=["loop.activity is me", "total >= 0", "throughput is None or throughput > 0"],
         asserts={1: "usage", 2: "usage", 3: "internal", 4: "internal"},
         suspends=(1, None),
         ensures=["loop.activity is me"],
         on_signal=["loop.activity is me"], on_close=[],
         # a transfer that ends -- normally, cancelled, interrupted or closed -- no longer occupies bandwidth (C13)
         on_exit=[DEAD_NEW, "forall_new_exact(object, lambda o: o not in self._subscriptions)"],
         stable=["identifier in self._subscriptions", "self._subscriptions[identifier]"],
         # while it runs the transfer is registered with exactly its own limit (the weight of its proportional share)
         at_suspension=["identifier in self._subscriptions",
                        "self._subscriptions[identifier] == ite(throughput is None, self.throughput, throughput)"],
         loop_invariants={"while#1": ["loop.activity is me", "identifier in self._subscriptions", "throughput > 0",
                                      "self._subscriptions[identifier] == throughput", "transferred >= 0"]},
         props=["C13", "C20"])

contract("usim._basics.pipe.UnboundedPipe.transfer",
         params={"self": REF("Pipe"), "total": REAL, "throughput": OPT(REAL)},
         requires=["loop.activity is me", "total >= 0", "throughput is None or throughput > 0"],
         asserts={1: "usage", 2: "usage"},
         suspends=(1, None),
         # an unbounded pipe never slows anybody down: the transfer takes total / own limit (no time without a limit)
         ensures=["loop.activity is me",
                  "implies(throughput is None, loop.time == old(loop.time))"],
         on_signal=["loop.activity is me"], on_close=[],
         on_exit=[DEAD_NEW],
         props=["C13", "C20"])
