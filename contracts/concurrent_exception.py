"""C17: Concurrent[...] matching (pure functions over class objects)."""
from pyvc.dsl import *

# class objects are references; a class created by MetaConcurrent carries these (metaclass-instance) fields
model("MetaConcurrent", module="usim._primitives.concurrent_exception",
      fields={"inclusive": BOOL, "specialisations": OPT(LIST(ANY)), "template": ANY})

# spec function transcribed from the property statement:
#   H matches R  iff  every listed type is matched by some child (subclasses count)
#                     and (trailing `...`  or  every child matches some listed type)
spec_function("Match", ["listed", "open_", "children"],
              "all(any(issubclass(c, l) for c in children) for l in listed) and "
              "(open_ or all(any(issubclass(c, l) for l in listed) for c in children))")

contract("usim._primitives.concurrent_exception.MetaConcurrent._subclasscheck_specialisation",
         params={"cls": REF("MetaConcurrent"), "subclass": REF("MetaConcurrent")}, returns=BOOL,
         requires=["cls.specialisations is not None", "subclass.specialisations is not None"],
         ensures=["result == Match(cls.specialisations, cls.inclusive, subclass.specialisations)"],
         modifies=[], pure=True, no_invariants=True, props=["C17"])

contract("usim._primitives.concurrent_exception.MetaConcurrent.__subclasscheck__",
         params={"cls": REF("MetaConcurrent"), "subclass": ANY}, returns=BOOL,
         ensures=[
             # bare template matches every specialisation of itself; a specialisation matches per Match;
             # anything that is not a class of this family never matches (unless identical)
             "result == (cls is subclass or ("
             "   isinstance(subclass, MetaConcurrent) and subclass.template is cls.template and "
             "   (cls.specialisations is None or "
             "    (subclass.specialisations is not None and "
             "     Match(cls.specialisations, cls.inclusive, subclass.specialisations)))))"],
         modifies=[], pure=True, no_invariants=True, props=["C17"])

contract("usim._primitives.concurrent_exception.MetaConcurrent.__instancecheck__",
         params={"cls": REF("MetaConcurrent"), "instance": ANY}, returns=BOOL,
         # isinstance and issubclass agree: isinstance(x, H) == issubclass(type(x), H)
         ensures=["result == (cls is typeof(instance) or ("
                  "   isinstance(typeof(instance), MetaConcurrent) and typeof(instance).template is cls.template and "
                  "   (cls.specialisations is None or "
                  "    (typeof(instance).specialisations is not None and "
                  "     Match(cls.specialisations, cls.inclusive, typeof(instance).specialisations)))))"],
         modifies=[], pure=True, no_invariants=True, props=["C17"])


# ---------------------------------------------------------------------------------------------------- flattened() (C17)
# leaves(c): the non-Concurrent exceptions below c, depth first, left to right.  Defined by structural recursion over the
# (immutable) children tuples; the solver cannot unfold such a definition by itself, so it is given as an uninterpreted
# function with its defining equations:  off(c, i) = number of leaves contributed by children[0..i).
from contracts import context as _ctx   # noqa: F401  (model of Concurrent)

IS_C = "isinstance(c.children[i], Concurrent)"
LEAVES_AXIOMS = [
    "forall(Concurrent, lambda c: lv_off(c, 0) == 0 and lv_n(c) == lv_off(c, len(c.children)) and lv_n(c) >= 0)",
    "forall(Concurrent, lambda c: forall(int, lambda i: implies(0 <= i and i < len(c.children), "
    "       lv_off(c, i + 1) == lv_off(c, i) + ite(%s, lv_n(c.children[i]), 1) and lv_off(c, i) >= 0)))" % IS_C,
    "forall(Concurrent, lambda c: forall(int, lambda i, k: implies(0 <= i and i < len(c.children) and lv_off(c, i) <= k and k < lv_off(c, i + 1), "
    "       lv_at(c, k) is ite(%s, lv_at(c.children[i], k - lv_off(c, i)), c.children[i]))))" % IS_C,
    # consequence of the equations by induction on i (not mechanised): without nested Concurrent the offsets are the indices
    "forall(Concurrent, lambda c: implies(forall(int, lambda i: implies(0 <= i and i < len(c.children), not %s)), "
    "       forall(int, lambda i: implies(0 <= i and i <= len(c.children), lv_off(c, i) == i))))" % IS_C,
]
spec_uninterpreted("lv_n", [("c", ANY)], INT, axioms=LEAVES_AXIOMS)
spec_uninterpreted("lv_at", [("c", ANY), ("k", INT)], ANY, axioms=LEAVES_AXIOMS)
spec_uninterpreted("lv_off", [("c", ANY), ("i", INT)], INT, axioms=LEAVES_AXIOMS)

contract("usim._primitives.concurrent_exception.Concurrent.flattened",
         params={"self": REF("Concurrent")}, returns=REF("Concurrent"),
         # interpreter fact about the class object: the bare template `Concurrent` is not a specialisation
         assume_entry=["Concurrent.specialisations is None"],
         # flattened() preserves the leaf exceptions and their order
         ensures=["len(result.children) == lv_n(self)",
                  "forall(int, lambda k: implies(0 <= k and k < lv_n(self), result.children[k] is lv_at(self, k)))"],
         loop_invariants={"for#1": [
             "len(leafs) == lv_off(self, _i)",
             "forall(int, lambda k: implies(0 <= k and k < lv_off(self, _i), leafs[k] is lv_at(self, k)))"]},
         modifies=["Concurrent.children", "Concurrent.__cause__", "Concurrent.__context__"], check_frame=False,
         no_invariants=True, chain_ensures=True,
         props=["C17"])
