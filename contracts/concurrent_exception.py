"""C17: Concurrent[...] matching (pure functions over class objects)."""
from pyvc.dsl import *

# class objects are references; a class created by MetaConcurrent carries these (metaclass-instance) fields
model("MetaConcurrent", module="usim._primitives.concurrent_exception",
      fields={"inclusive": BOOL, "specialisations": OPT(LIST(ANY)), "template": ANY})

# spec function transcribed from the property statement:
#   H matches R  iff  every listed type is matched by some child (subclasses count)
#                     and (trailing `...`  or  every child matches some listed type)
spec_function("Match", ["listed", "open_", "children"],
              "all(any(issubclass(c, l) for c in children) for l in listed) and "
              "(open_ or all(any(issubclass(c, l) for l in listed) for c in children))")

contract("usim._primitives.concurrent_exception.MetaConcurrent._subclasscheck_specialisation",
         params={"cls": REF("MetaConcurrent"), "subclass": REF("MetaConcurrent")}, returns=BOOL,
         requires=["cls.specialisations is not None", "subclass.specialisations is not None"],
         ensures=["result == Match(cls.specialisations, cls.inclusive, subclass.specialisations)"],
         modifies=[], pure=True, no_invariants=True, props=["C17"])

contract("usim._primitives.concurrent_exception.MetaConcurrent.__subclasscheck__",
         params={"cls": REF("MetaConcurrent"), "subclass": ANY}, returns=BOOL,
         ensures=[
             # bare template matches every specialisation of itself; a specialisation matches per Match;
             # anything that is not a class of this family never matches (unless identical)
             "result == (cls is subclass or ("
             "   isinstance(subclass, MetaConcurrent) and subclass.template is cls.template and "
             "   (cls.specialisations is None or "
             "    (subclass.specialisations is not None and "
             "     Match(cls.specialisations, cls.inclusive, subclass.specialisations)))))"],
         modifies=[], pure=True, no_invariants=True, props=["C17"])

contract("usim._primitives.concurrent_exception.MetaConcurrent.__instancecheck__",
         params={"cls": REF("MetaConcurrent"), "instance": ANY}, returns=BOOL,
         # isinstance and issubclass agree: isinstance(x, H) == issubclass(type(x), H)
         ensures=["result == (cls is typeof(instance) or ("
                  "   isinstance(typeof(instance), MetaConcurrent) and typeof(instance).template is cls.template and "
                  "   (cls.specialisations is None or "
                  "    (typeof(instance).specialisations is not None and "
                  "     Match(cls.specialisations, cls.inclusive, typeof(instance).specialisations)))))"],
         modifies=[], pure=True, no_invariants=True, props=["C17"])
