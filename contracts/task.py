"""Task / Done (C06, C03, C04)."""
from pyvc.dsl import *
from contracts import condition as _c   # noqa: F401

NS = ["Notification", "Interrupt.parked_or_scheduled"]
DEAD_NEW = "forall_new(Interrupt, lambda i: i.sub is None and (i._revoked or not i.scheduled))"
RESULT = OPT(TUP(ANY, OPT(REF("BaseException"))))
default_scope(NS + ["Task", "Done", "NotDone", "coroutine", "Scope", "Condition", "CancelTask", "InterruptScope"])


# ghost view of a native coroutine object: its state and (for task runners) the task it belongs to
# state: 0 created (never activated), 1 started (running or suspended), 3 finished / closed
model("coroutine", fields={}, ghost={"state": INT, "task": OPT(REF("Task"))}, ghost_defaults={"task": None}, final=["task"])

model("Task", module="usim._primitives.task",
      fields={"payload": ANY, "_result": RESULT, "__runner__": REF("coroutine"), "_cancellations": LIST(REF("CancelTask")),
              "_done": REF("Done"), "__volatile__": BOOL, "parent": REF("Scope")},
      ghost={"reported": BOOL,         # parent.__child_finished__ was called for this task
             "linked": BOOL,           # Scope.do has put it into the parent's child list
             "cpos": INT, "vpos": INT,    # its index in parent._children / parent._volatile_children
             # the start date the task was created with (closure variables `delay` / `at` of its wrapper)
             "start_delay": OPT(REAL), "start_at": OPT(REAL)},
      ghost_defaults={"reported": False, "linked": False},
      final=["payload", "__runner__", "_done", "__volatile__", "parent", "start_delay", "start_at"])
model("Done", module="usim._primitives.task",
      fields={"_task": REF("Task"), "_value": BOOL, "_inverse": REF("NotDone")}, final=["_task", "_inverse"])
model("NotDone", module="usim._primitives.task", fields={"_done": REF("Done")}, final=["_done"])
model("CancelTask", module="usim._primitives.task", fields={"subject": REF("Task")}, final=["subject"])
model("TaskCancelled", module="usim._primitives.task", fields={"subject": REF("Task"), "__cause__": OPT(ANY)}, final=["subject"])

# T1 (DESIGN Appendix F): done <=> result set; a finished, unreported task has a runner that never started
invariant("Task", "wellformed",
          "self._done is not None and self._done._task is self and self.__runner__ is not None and self.__runner__.task is self "
          "and self.parent is not None", props=["C06", "C04"])
# (result set, done not yet) only occurs inside Task.__close__ while the suspended runner is being closed synchronously
invariant("Task", "done_implies_result", "implies(self._done._value, self._result is not None)", props=["C06", "C04", "C03"])
invariant("Task", "closed_means_reported", "implies(self.__runner__.state == 3, self.reported)", props=["C04", "C06"])
invariant("Task", "reported_means_done", "implies(self.reported, self._done._value and self.__runner__.state == 3)", props=["C04", "C06"])
invariant("Task", "done_unreported_is_unstarted",
          "implies(self._done._value and not self.reported, self.__runner__.state == 0)", props=["C04", "C06", "C03"])
invariant("coroutine", "state_range", "self.state == 0 or self.state == 1 or self.state == 3", props=["C03"])
invariant("Done", "no_waiter_when_true", "implies(self._value, len(self._waiting) == 0)", props=["C08", "C06"])
invariant("Done", "wellformed", "self._task is not None and self._task._done is self and self._inverse is not None and self._inverse._done is self",
          props=["C06"])
invariant("NotDone", "no_waiter_when_true",
          "self._done is not None and self._done._inverse is self and implies(not self._done._value, len(self._waiting) == 0)", props=["C08"])

contract("usim._primitives.task.try_close",
         params={"coroutine": ANY},
         # closing a payload that never started or that has finished runs no code of the simulation
         ensures=["True"], modifies=[], check_frame=False, inline=False, no_invariants=True,
         unexpected_ok=[],
         note="ASSUMED effect-free: `close()` of a never-started or finished payload object",
         props=["C04", "C06"])

contract("usim._primitives.task.Done.__set_done__", allocates=False,
         params={"self": REF("Done")},
         requires=["not self._value"],         # the internal assertion: done is set exactly once
         asserts={1: "internal"},
         ensures=["self._value", "len(self._waiting) == 0",
                  "len(loop._pending) == len(old(loop._pending)) + len(old(self._waiting))",
                  "forall(Interrupt, lambda i: i.scheduled == (old(i.scheduled) or old(i.sub) is self))",
                  "forall(Interrupt, lambda i: i.due == ite(old(i.sub) is self and not old(i.scheduled), loop.time, old(i.due)))",
                  'unchanged("Interrupt.target")'],
         modifies=["Done._value@self", "Notification._waiting@self", "Loop._pending@loop", "Interrupt.scheduled", "Interrupt.target", "Interrupt.due"],
         inv_scope=NS + ["Done.no_waiter_when_true"],
         note="called while Task.done_iff_result is being re-established by the caller",
         props=["C06", "C08", "C03"])

contract("usim._primitives.task.Task.status",
         params={"self": REF("Task")}, returns=INT, pure=True, modifies=[],
         # forward-only status as a function of (result, runner state): CREATED=1 RUNNING=2 CANCELLED=4 FAILED=8 SUCCESS=16
         ensures=["implies(self._result is None and self.__runner__.state == 0, result == 1)",
                  "implies(self._result is None and self.__runner__.state != 0, result == 2)",
                  "implies(self._result is not None and self._result[1] is None, result == 16)",
                  "implies(self._result is not None and self._result[1] is not None, "
                  "        result == ite(isinstance(self._result[1], TaskCancelled) or isinstance(self._result[1], TaskClosed), 4, 8))"],
         props=["C06"])

model("CancelScope", module="usim._primitives.context", fields={"subject": REF("Scope")}, final=["subject"])

# closing a *suspended task runner* runs the GeneratorExit continuation of Task.payload_wrapper synchronously:
# this contract is the caller's view; payload_wrapper's on_close clauses are the same clauses (checked there)
RUNNER_CLOSED = ["self.state == 3",
                 "implies(self.task is not None and old(self.state) == 1, "
                 "        self.task._done._value and self.task.reported and self.task._result == old(self.task._result))",
                 "implies(old(self.state) != 1, unchanged_all_but_state)" if False else "True"]
abstract_contract("coroutine", "close", [],
                  params={"self": REF("coroutine")},
                  requires=["self.state == 1 or self.state == 3"],       # never a created runner (C03c)
                  ensures=RUNNER_CLOSED, havoc_all=True,
                  note="assumed from the coroutine protocol: close() throws GeneratorExit at the current suspension point and "
                       "runs the coroutine to completion synchronously (payloads that await inside GeneratorExit handling are invalid programs)",
                  props=["C04", "C06", "C03"])

contract("usim._primitives.task.Task.cancel",
         params={"self": REF("Task"), "token": LIST(ANY)},
         ensures=[
             # finished: nothing happens
             "implies(old(self._result) is not None, self._result == old(self._result) and loop._pending == old(loop._pending) "
             "        and self._cancellations == old(self._cancellations))",
             # not started: cancelled at once, done, and the runner stays unstarted (its first activation runs no payload code)
             "implies(old(self._result) is None and old(self.__runner__.state) == 0, "
             "        self._result is not None and self._result[0] is None and isinstance(self._result[1], TaskCancelled) "
             "        and cast(self._result[1], TaskCancelled).subject is self and self._done._value "
             "        and self.__runner__.state == 0 and self._cancellations == old(self._cancellations))",
             # running: one live CancelTask for this task is delivered in this time step; the result is still open
             "implies(old(self._result) is None and old(self.__runner__.state) != 0, "
             "        self._result is None and len(self._cancellations) == len(old(self._cancellations)) + 1 "
             "        and self._cancellations[len(old(self._cancellations))].subject is self "
             "        and self._cancellations[len(old(self._cancellations))].scheduled "
             "        and not self._cancellations[len(old(self._cancellations))]._revoked "
             "        and loop._pending == old(loop._pending) + [Activation(self.__runner__, self._cancellations[len(old(self._cancellations))])])",
             "self.__runner__.state == old(self.__runner__.state)"],
         modifies=["Task._result@self", "Task._cancellations@self", "Done._value@self._done", "Notification._waiting@self._done",
                   "Loop._pending@loop", "Interrupt.scheduled", "Interrupt.target", "Interrupt.due", "Interrupt.token", "Interrupt._revoked",
                   "CancelTask.subject", "TaskCancelled.subject", "Interrupt.sub", "Interrupt.immediate"],
         props=["C06", "C03"])

contract("usim._primitives.task.Task.__close__", havoc_all=True,
         params={"self": REF("Task"), "reason": REF("BaseException")},
         requires=["True"],
         ensures=["implies(old(self._result) is None, self._done._value)", "self._result is not None",
                  "implies(old(self._result) is not None, self._result == old(self._result) and self._done._value == old(self._done._value))",
                  "implies(old(self._result) is None, self._result[1] is reason and self._result[0] is None)",
                  # a started runner has been run to completion (closed); an unstarted one stays unstarted
                  "implies(old(self.__runner__.state) == 0, self.__runner__.state == 0)",
                  "implies(old(self.__runner__.state) == 1 and old(self._result) is None, self.__runner__.state == 3 and self.reported)"],
         modifies=[], check_frame=False,
         props=["C04", "C06", "C03"])

contract("usim._primitives.task.Task.__await__",
         params={"self": REF("Task")}, returns=ANY,
         requires=["loop.activity is me"],
         suspends=(1, None),
         # every awaiter -- before or after completion -- receives the stored outcome
         ensures=["self._done._value", "self._result is not None", "self._result[1] is None", "result is self._result[0]",
                  "loop.activity is me"],
         raises={"BaseException": dict(ensures=["self._done._value", "self._result is not None", "exc is self._result[1]"])},
         on_signal=[], on_close=[],
         on_exit=[DEAD_NEW],
         props=["C06", "C20", "C16"])

contract("usim._primitives.task.Task.__exception__",
         params={"self": REF("Task")}, returns=OPT(REF("BaseException")), pure=True, modifies=[],
         requires=["self._result is not None"], asserts={1: "usage"},
         ensures=["result is self._result[1]"], props=["C05", "C06"])

# T7: the task of a started, unfinished runner is not done; a live cancellation is addressed to its subject's runner
invariant("Task", "started_is_not_done", "implies(self.__runner__.state == 1, not self._done._value)", props=["C06", "C03"])
invariant("Task", "unstarted_result_is_final",
          "implies(self.__runner__.state == 0, len(self._cancellations) == 0 and implies(self._result is not None, self._done._value))",
          props=["C06", "C04"])
invariant("CancelTask", "addressed_to_subject",
          "self.sub is None and implies(self.scheduled, self.subject is not None and self.target is self.subject.__runner__)", props=["C03", "C06"])
invariant("Task", "cancellations_wf",
          "forall(self._cancellations, lambda c: c is not None and c.subject is self and c.sub is None and "
          "       implies(c.scheduled, c.target is self.__runner__))", props=["C03", "C06"])

contract("usim._primitives.task.Task.__init__",
         params={"self": REF("Task"), "payload": ANY, "parent": REF("Scope"), "delay": OPT(REAL), "at": OPT(REAL), "volatile": BOOL},
         ensures=["self.payload is payload", "self.parent is parent", "self.__volatile__ == volatile", "self._result is None",
                  "len(self._cancellations) == 0", "not self._done._value", "len(self._done._waiting) == 0",
                  "fresh_obj(self.__runner__) and self.__runner__.state == 0 and self.__runner__.task is self",
                  "not self.reported and not self.linked", "self.start_delay == delay and self.start_at == at",
                  "self._done._task is self and self._done._inverse._done is self._done and len(self._done._inverse._waiting) == 0",
                  "fresh_obj(self._done) and fresh_obj(self._done._inverse)",
                  # nothing that existed before is touched
                  "forall(Notification, lambda n: implies(not fresh_obj(n), n._waiting == old(n._waiting)))",
                  "forall(Done, lambda d: implies(not fresh_obj(d), d._value == old(d._value) and d._task is old(d._task) and d._inverse is old(d._inverse)))",
                  "forall(NotDone, lambda d: implies(not fresh_obj(d), d._done is old(d._done)))",
                  "forall(coroutine, lambda c: implies(not fresh_obj(c), c.state == old(c.state) and c.task is old(c.task)))"],
         ghost_exit=["self.__runner__.task = self\nself.start_delay = delay\nself.start_at = at"],
         modifies=["Task.start_delay@self", "Task.start_at@self", "Task.payload@self", "Task.parent@self", "Task.__volatile__@self", "Task._result@self", "Task._cancellations@self",
                   "Task._done@self", "Task.__runner__@self", "coroutine.task", "coroutine.state",
                   "Done._task", "Done._value", "Done._inverse", "NotDone._done", "Notification._waiting"],
         check_frame=False,
         props=["C06", "C04"])

contract("usim._primitives.task.Task.__init__.payload_wrapper",
         params={"self": REF("Task"), "delay": OPT(REAL), "at": OPT(REAL)},
         # K8/K-deliver for the signal-less first activation: the runner starts exactly once, as the running activity
         assume_entry=["self.__runner__ is me", "loop.activity is me", "self.__runner__.state == 0", "self.linked and not self.reported",
                       # closure binding: the wrapper's free variables are the constructor's arguments
                       "delay == self.start_delay and at == self.start_at",
                       "implies(delay is not None, delay > 0)", "implies(at is not None, at > loop.time)", "delay is None or at is None"],
         ghost_entry=["self.__runner__.state = 1"],
         ghost_any_exit=["self.__runner__.state = 3"],
         # coroutine protocol: a suspended task runner is closed only by Task.__close__, which stores the outcome first
         # (GC finalisation through Task.__del__ is outside the model)
         assume_on_close=["self._result is not None"],
         stable=["self.__runner__.state", "self.reported", "self.linked"],
         asserts={1: "internal"},
         suspends=(0, None),
         ensures=[
             # every completion path: reported to the parent exactly once, done, outcome stored, no live cancellation left
             "self.reported and self._done._value and self._result is not None",
             "forall(self._cancellations, lambda c: c._revoked)",
             # C01: the payload starts exactly at the requested date (scope.do(..., at=t / after=d)), else in the step it was spawned
             "implies(user_code_ran(), user_start_time() == ite(at is not None, at, ite(delay is not None, old(loop.time) + delay, old(loop.time))))",
             # a task cancelled/closed before its first activation runs no payload code at all (C06, C04)
             "implies(old(self._result) is not None, not user_code_ran() and self._result == old(self._result))"],
         on_signal=["False"], on_close=["False"],     # nothing escapes the wrapper: every BaseException is an outcome
         loop_invariants={"for#1": ["forall(int, lambda k: implies(0 <= k and k < _i, self._cancellations[k]._revoked))",
                                    'unchanged_in_loop("Task._cancellations", "Task._result", "Task.reported", "Interrupt.scheduled", "Interrupt.sub", "Done._value")',
                                    "forall(Interrupt, lambda i: implies(i.sub is not None, i._revoked == at_loop_entry(i._revoked)))",
                                    "forall(Interrupt, lambda i: implies(at_loop_entry(i._revoked), i._revoked))",
                                    "self._result is not None and self.reported and self.__runner__.state == 1"]},
         props=["C03", "C04", "C05", "C06", "C01"])

# ~task.done / ~(~task.done): the inverse condition object, whose value is the negation (C08)
contract("usim._primitives.task.Done.__invert__",
         params={"self": REF("Done")}, returns=REF("NotDone"), chain_ensures=True, check_frame=False,
         ensures=["result is self._inverse", "bool(result) == (not bool(self))", "forall(Condition, lambda c: implies(not fresh_obj(c), bool(c) == old(bool(c))))"], modifies=[], props=["C08"])
contract("usim._primitives.task.NotDone.__invert__",
         params={"self": REF("NotDone")}, returns=REF("Done"), chain_ensures=True, check_frame=False,
         ensures=["result is self._done", "bool(result) == (not bool(self))", "forall(Condition, lambda c: implies(not fresh_obj(c), bool(c) == old(bool(c))))"], modifies=[], props=["C08"])
