"""Task / Done (C06, C03, C04)."""
from pyvc.dsl import *
from contracts import condition as _c   # noqa: F401

NS = ["Notification", "Interrupt.parked_or_scheduled"]
DEAD_NEW = "forall_new(Interrupt, lambda i: i.sub is None and (i._revoked or not i.scheduled))"
RESULT = OPT(TUP(ANY, OPT(REF("BaseException"))))

# ghost view of a native coroutine object: its state and (for task runners) the task it belongs to
model("coroutine", fields={}, ghost={"state": INT, "task": OPT(REF("Task"))}, ghost_defaults={"task": None}, final=["task"])

model("Task", module="usim._primitives.task",
      fields={"payload": ANY, "_result": RESULT, "__runner__": REF("coroutine"), "_cancellations": LIST(REF("CancelTask")),
              "_done": REF("Done"), "__volatile__": BOOL, "parent": REF("Scope")},
      ghost={"reported": BOOL},        # parent.__child_finished__ was called for this task
      ghost_defaults={"reported": False},
      final=["payload", "__runner__", "_done", "__volatile__", "parent"])
model("Done", module="usim._primitives.task",
      fields={"_task": REF("Task"), "_value": BOOL, "_inverse": REF("NotDone")}, final=["_task", "_inverse"])
model("NotDone", module="usim._primitives.task", fields={"_done": REF("Done")}, final=["_done"])
model("CancelTask", module="usim._primitives.task", fields={"subject": REF("Task")}, final=["subject"])
model("TaskCancelled", module="usim._primitives.task", fields={"subject": REF("Task")}, final=["subject"])

# T1 (DESIGN Appendix F): done <=> result set; a finished, unreported task has a runner that never started
invariant("Task", "wellformed",
          "self._done is not None and self._done._task is self and self.__runner__ is not None and self.__runner__.task is self "
          "and self.parent is not None", props=["C06", "C04"])
# (result set, done not yet) only occurs inside Task.__close__ while the suspended runner is being closed synchronously
invariant("Task", "done_implies_result", "implies(self._done._value, self._result is not None)", props=["C06", "C04", "C03"])
invariant("Task", "closed_means_reported", "implies(self.__runner__.state == 3, self.reported)", props=["C04", "C06"])
invariant("Task", "reported_means_done", "implies(self.reported, self._done._value and self.__runner__.state == 3)", props=["C04", "C06"])
invariant("Task", "done_unreported_is_unstarted",
          "implies(self._done._value and not self.reported, self.__runner__.state == 0)", props=["C04", "C06", "C03"])
invariant("coroutine", "state_range", "0 <= self.state and self.state <= 3", props=["C03"])
invariant("Done", "no_waiter_when_true", "implies(self._value, len(self._waiting) == 0)", props=["C08", "C06"])
invariant("Done", "wellformed", "self._task is not None and self._task._done is self and self._inverse is not None and self._inverse._done is self",
          props=["C06"])
invariant("NotDone", "no_waiter_when_true",
          "self._done is not None and self._done._inverse is self and implies(not self._done._value, len(self._waiting) == 0)", props=["C08"])

contract("usim._primitives.task.try_close",
         params={"coroutine": ANY},
         # closing a payload that never started or that has finished runs no code of the simulation
         ensures=["True"], modifies=[], check_frame=False, inline=False, no_invariants=True,
         unexpected_ok=[],
         note="ASSUMED effect-free: `close()` of a never-started or finished payload object",
         props=["C04"])

contract("usim._primitives.task.Done.__set_done__",
         params={"self": REF("Done")},
         requires=["not self._value"],         # the internal assertion: done is set exactly once
         asserts={1: "internal"},
         ensures=["self._value", "len(self._waiting) == 0",
                  "len(loop._pending) == len(old(loop._pending)) + len(old(self._waiting))",
                  "forall(old(self._waiting), lambda w: w[1].scheduled and w[1].due == loop.time)",
                  "forall(Interrupt, lambda i: implies(not exists(old(self._waiting), lambda w: w[1] is i), "
                  "       i.scheduled == old(i.scheduled) and i.target is old(i.target) and i.due == old(i.due)))"],
         modifies=["Done._value@self", "Notification._waiting@self", "Loop._pending@loop", "Interrupt.scheduled", "Interrupt.target", "Interrupt.due"],
         inv_scope=NS + ["Done.no_waiter_when_true"],
         note="called while Task.done_iff_result is being re-established by the caller",
         props=["C06", "C08", "C03"])

contract("usim._primitives.task.Task.status",
         params={"self": REF("Task")}, returns=INT, pure=True, modifies=[],
         # forward-only status as a function of (result, runner state): CREATED=1 RUNNING=2 CANCELLED=4 FAILED=8 SUCCESS=16
         ensures=["implies(self._result is None and self.__runner__.state == 0, result == 1)",
                  "implies(self._result is None and self.__runner__.state != 0, result == 2)",
                  "implies(self._result is not None and self._result[1] is None, result == 16)",
                  "implies(self._result is not None and self._result[1] is not None, "
                  "        result == ite(isinstance(self._result[1], TaskCancelled) or isinstance(self._result[1], TaskClosed), 4, 8))"],
         props=["C06"])

model("CancelScope", module="usim._primitives.context", fields={"subject": REF("Scope")}, final=["subject"])

# closing a *suspended task runner* runs the GeneratorExit continuation of Task.payload_wrapper synchronously:
# this contract is the caller's view; payload_wrapper's on_close clauses are the same clauses (checked there)
RUNNER_CLOSED = ["self.state == 3",
                 "implies(self.task is not None and old(self.state) == 1, "
                 "        self.task._done._value and self.task.reported and self.task._result == old(self.task._result))",
                 "implies(old(self.state) != 1, unchanged_all_but_state)" if False else "True"]
abstract_contract("coroutine", "close", [],
                  params={"self": REF("coroutine")},
                  requires=["self.state == 1 or self.state == 3"],       # never a created runner (C03c), never a running one
                  ensures=RUNNER_CLOSED, havoc_all=True,
                  note="assumed from the coroutine protocol: close() throws GeneratorExit at the current suspension point and "
                       "runs the coroutine to completion synchronously (payloads that await inside GeneratorExit handling are invalid programs)",
                  props=["C04", "C06", "C03"])

contract("usim._primitives.task.Task.cancel",
         params={"self": REF("Task"), "token": LIST(ANY)},
         ensures=[
             # finished: nothing happens
             "implies(old(self._result) is not None, self._result == old(self._result) and loop._pending == old(loop._pending) "
             "        and self._cancellations == old(self._cancellations))",
             # not started: cancelled at once, done, and the runner stays unstarted (its first activation runs no payload code)
             "implies(old(self._result) is None and old(self.__runner__.state) == 0, "
             "        self._result is not None and self._result[0] is None and isinstance(self._result[1], TaskCancelled) "
             "        and cast(self._result[1], TaskCancelled).subject is self and self._done._value "
             "        and self.__runner__.state == 0 and self._cancellations == old(self._cancellations))",
             # running: one live CancelTask for this task is delivered in this time step; the result is still open
             "implies(old(self._result) is None and old(self.__runner__.state) != 0, "
             "        self._result is None and len(self._cancellations) == len(old(self._cancellations)) + 1 "
             "        and self._cancellations[len(old(self._cancellations))].subject is self "
             "        and self._cancellations[len(old(self._cancellations))].scheduled "
             "        and not self._cancellations[len(old(self._cancellations))]._revoked "
             "        and loop._pending == old(loop._pending) + [Activation(self.__runner__, self._cancellations[len(old(self._cancellations))])])",
             "self.__runner__.state == old(self.__runner__.state)"],
         modifies=["Task._result@self", "Task._cancellations@self", "Done._value@self._done", "Notification._waiting@self._done",
                   "Loop._pending@loop", "Interrupt.scheduled", "Interrupt.target", "Interrupt.due", "Interrupt.token", "Interrupt._revoked",
                   "CancelTask.subject", "TaskCancelled.subject", "Interrupt.sub", "Interrupt.immediate"],
         props=["C06", "C03"])

contract("usim._primitives.task.Task.__close__",
         params={"self": REF("Task"), "reason": REF("BaseException")},
         requires=["self.__runner__.state != 2"],      # usage: a task does not close itself from inside its own payload
         ensures=["implies(old(self._result) is None, self._done._value)", "self._result is not None",
                  "implies(old(self._result) is not None, self._result == old(self._result) and self._done._value == old(self._done._value))",
                  "implies(old(self._result) is None, self._result[1] is reason and self._result[0] is None)",
                  # a started runner has been run to completion (closed); an unstarted one stays unstarted
                  "implies(old(self.__runner__.state) == 0, self.__runner__.state == 0)",
                  "implies(old(self.__runner__.state) == 1 and old(self._result) is None, self.__runner__.state == 3 and self.reported)"],
         modifies=[], check_frame=False,
         props=["C04", "C06", "C03"])

contract("usim._primitives.task.Task.__await__",
         params={"self": REF("Task")}, returns=ANY,
         requires=["loop.activity is me"],
         suspends=(1, None),
         # every awaiter -- before or after completion -- receives the stored outcome
         ensures=["self._done._value", "self._result is not None", "self._result[1] is None", "result is self._result[0]",
                  "loop.activity is me"],
         raises={"BaseException": dict(ensures=["self._done._value", "self._result is not None", "exc is self._result[1]"])},
         on_signal=[], on_close=[],
         on_exit=[DEAD_NEW],
         props=["C06", "C20"])

contract("usim._primitives.task.Task.__exception__",
         params={"self": REF("Task")}, returns=OPT(REF("BaseException")), pure=True, modifies=[],
         requires=["self._result is not None"], asserts={1: "usage"},
         ensures=["result is self._result[1]"], props=["C05", "C06"])
