"""Condition / Flag / connectives (C08, C20, C07)."""
from pyvc.dsl import *
from contracts import notification as _n   # noqa: F401

NS = ["Notification", "Interrupt.parked_or_scheduled"]
DEAD_NEW = "forall_new(Interrupt, lambda i: i.sub is None and (i._revoked or not i.scheduled))"
default_scope(NS + ["Condition", "Flag", "InverseFlag"])


model("Condition", module="usim._primitives.condition", fields={})
model("Flag", module="usim._primitives.flag",
      fields={"_value": BOOL, "_inverse": REF("InverseFlag")}, final=["_inverse"])
model("InverseFlag", module="usim._primitives.flag", fields={"_event": REF("Flag")}, final=["_event"])

# ---- Condition.__await__: returns only in a segment in which the condition evaluates true, after >= 1 suspension
contract("usim._primitives.condition.Condition.__await__",
         params={"self": REF("Condition")}, returns=BOOL, inv_scope=NS,
         requires=["loop.activity is me"],
         asserts={1: "internal"},
         suspends=(1, None),
         ensures=["result == True", "bool(self)", "loop.activity is me"],
         on_signal=["loop.activity is me"], on_close=[],
         on_exit=[DEAD_NEW],
         loop_invariants={"while#1": ["loop.activity is me"]},
         props=["C08", "C20", "C03"])

contract("usim._primitives.condition.Condition.__subscribe__", allocates=False,
         params={"self": REF("Condition"), "waiter": ANY, "interrupt": REF("Interrupt")}, inv_scope=NS,
         requires=["interrupt.sub is None", "not interrupt.scheduled", "not interrupt._revoked", "waiter is not None"],
         # a waiter may only be parked on a date whose trigger is queued (After.__subscribe__ sees to it before super())
         requires_direct=["implies(isinstance(self, After), self.trigger_due or bool(self))"],
         ensures=[
             "interrupt.immediate == old(bool(self))",
             # already true: delivered in this time step; otherwise parked until triggered
             "implies(old(bool(self)), interrupt.scheduled and interrupt.due == loop.time and "
             "        loop._pending == old(loop._pending) + [Activation(waiter, interrupt)] and self._waiting == old(self._waiting))",
             "implies(not old(bool(self)), not interrupt.scheduled and self._waiting == old(self._waiting) + [(waiter, interrupt)] "
             "        and loop._pending == old(loop._pending))",
             "interrupt.sub is self and interrupt.target is waiter and interrupt._revoked == old(interrupt._revoked)"],
         ghost_exit=["interrupt.sub = self\ninterrupt.target = waiter\ninterrupt.immediate = interrupt.scheduled"],
         modifies=["Notification._waiting@self", "Loop._pending@loop", "Interrupt.sub@interrupt", "Interrupt.target@interrupt",
                   "Interrupt.pos@interrupt", "Interrupt.scheduled@interrupt", "Interrupt.due@interrupt", "Interrupt.immediate@interrupt"],
         props=["C07", "C08", "C03"])

# ---- Inv_cond1 (C08): no waiter stays parked on a condition that is true
invariant("Flag", "no_waiter_when_true", "implies(self._value, len(self._waiting) == 0)", props=["C08"])
invariant("Flag", "has_inverse", "self._inverse is not None and self._inverse._event is self", props=["C08"])
invariant("InverseFlag", "no_waiter_when_true",
          "self._event is not None and self._event._inverse is self and implies(not self._event._value, len(self._waiting) == 0)",
          props=["C08"])

contract("usim._primitives.flag.Flag.__init__",
         params={"self": REF("Flag")},
         requires=["forall(Interrupt, lambda i: i.sub is not self)", "forall(InverseFlag, lambda f: f._event is not self)",
                   "forall(Notification, lambda n: n.lock is None or True)"],
         ensures=["self._value == False", "len(self._waiting) == 0", "self._inverse._event is self", "len(self._inverse._waiting) == 0",
                  "fresh_obj(self._inverse)",
                  "forall(Notification, lambda n: implies(not fresh_obj(n) and n is not self, n._waiting == old(n._waiting)))",
                  "forall(InverseFlag, lambda f: implies(not fresh_obj(f), f._event is old(f._event)))"],
         modifies=["Flag._value@self", "Flag._inverse@self", "Notification._waiting", "InverseFlag._event"],
         props=["C08"])

contract("usim._primitives.flag.Flag.set",
         params={"self": REF("Flag"), "to": BOOL},
         requires=["loop.activity is me"],
         suspends=(1, None),
         # the new value is in force, and everybody it makes runnable is scheduled, before the setter yields (C08)
         at_suspension=["self._value == to"],
         ensures=["loop.activity is me"],
         on_signal=["loop.activity is me"], on_close=[],
         on_exit=["forall_new(Interrupt, lambda i: i.sub is None and (i._revoked or not i.scheduled))"],
         props=["C08", "C20"])

contract("usim._primitives.flag.InverseFlag.set",
         params={"self": REF("InverseFlag"), "to": BOOL},
         requires=["loop.activity is me"],
         suspends=(1, None),
         ensures=["loop.activity is me"],
         on_signal=["loop.activity is me"], on_close=[],
         props=["C08", "C20"])
