"""Condition / Flag / connectives (C08, C20, C07)."""
from pyvc.dsl import *
from contracts import notification as _n   # noqa: F401

NS = ["Notification", "Interrupt.parked_or_scheduled"]
DEAD_NEW = "forall_new(Interrupt, lambda i: i.sub is None and (i._revoked or not i.scheduled))"
default_scope(NS + ["Condition", "Flag", "InverseFlag"])


model("Condition", module="usim._primitives.condition", fields={})
model("Flag", module="usim._primitives.flag",
      fields={"_value": BOOL, "_inverse": REF("InverseFlag")}, final=["_inverse"])
model("InverseFlag", module="usim._primitives.flag", fields={"_event": REF("Flag")}, final=["_event"])

# ---- Condition.__await__: returns only in a segment in which the condition evaluates true, after >= 1 suspension
contract("usim._primitives.condition.Condition.__await__",
         params={"self": REF("Condition")}, returns=BOOL, inv_scope=NS,
         requires=["loop.activity is me"],
         asserts={1: "internal"},
         suspends=(1, None),
         ensures=["result == True", "bool(self)", "loop.activity is me"],
         on_signal=["loop.activity is me"], on_close=[],
         on_exit=[DEAD_NEW],
         loop_invariants={"while#1": ["loop.activity is me"]},
         props=["C08", "C20", "C03"])

contract("usim._primitives.condition.Condition.__subscribe__", allocates=False,
         params={"self": REF("Condition"), "waiter": ANY, "interrupt": REF("Interrupt")}, inv_scope=NS,
         requires=["interrupt.sub is None", "not interrupt.scheduled", "not interrupt._revoked", "waiter is not None"],
         # a waiter may only be parked on a date whose trigger is queued (After.__subscribe__ sees to it before super())
         requires_direct=["implies(isinstance(self, After), self.trigger_due or bool(self))"],
         ensures=[
             "interrupt.immediate == old(bool(self))",
             # already true: delivered in this time step; otherwise parked until triggered
             "implies(old(bool(self)), interrupt.scheduled and interrupt.due == loop.time and "
             "        loop._pending == old(loop._pending) + [Activation(waiter, interrupt)] and self._waiting == old(self._waiting))",
             "implies(not old(bool(self)), not interrupt.scheduled and self._waiting == old(self._waiting) + [(waiter, interrupt)] "
             "        and loop._pending == old(loop._pending))",
             "interrupt.sub is self and interrupt.target is waiter and interrupt._revoked == old(interrupt._revoked)"],
         ghost_exit=["interrupt.sub = self\ninterrupt.target = waiter\ninterrupt.immediate = interrupt.scheduled"],
         modifies=["Notification._waiting@self", "Loop._pending@loop", "Interrupt.sub@interrupt", "Interrupt.target@interrupt",
                   "Interrupt.pos@interrupt", "Interrupt.scheduled@interrupt", "Interrupt.due@interrupt", "Interrupt.immediate@interrupt"],
         props=["C07", "C08", "C03"])

# ---- Inv_cond1 (C08): no waiter stays parked on a condition that is true
invariant("Flag", "no_waiter_when_true", "implies(self._value, len(self._waiting) == 0)", props=["C08"])
invariant("Flag", "has_inverse", "self._inverse is not None and self._inverse._event is self", props=["C08"])
invariant("InverseFlag", "no_waiter_when_true",
          "self._event is not None and self._event._inverse is self and implies(not self._event._value, len(self._waiting) == 0)",
          props=["C08"])

contract("usim._primitives.flag.Flag.__init__",
         params={"self": REF("Flag")},
         requires=["forall(Interrupt, lambda i: i.sub is not self)", "forall(InverseFlag, lambda f: f._event is not self)",
                   "forall(Notification, lambda n: n.lock is None or True)"],
         ensures=["self._value == False", "len(self._waiting) == 0", "self._inverse._event is self", "len(self._inverse._waiting) == 0",
                  "fresh_obj(self._inverse)",
                  "forall(Notification, lambda n: implies(not fresh_obj(n) and n is not self, n._waiting == old(n._waiting)))",
                  "forall(InverseFlag, lambda f: implies(not fresh_obj(f), f._event is old(f._event)))"],
         modifies=["Flag._value@self", "Flag._inverse@self", "Notification._waiting", "InverseFlag._event"],
         props=["C08"])

contract("usim._primitives.flag.Flag.set",
         params={"self": REF("Flag"), "to": BOOL},
         # Connective: Inv_cond1 for a & b / a | b is part of this function's duty as well -- it is NOT met (finding D3)
         inv_scope=NS + ["Condition", "Flag", "InverseFlag", "Connective"],
         requires=["loop.activity is me"],
         suspends=(1, None),
         # the new value is in force, and everybody it makes runnable is scheduled, before the setter yields (C08)
         at_suspension=["self._value == to"],
         ensures=["loop.activity is me"],
         on_signal=["loop.activity is me"], on_close=[],
         on_exit=["forall_new(Interrupt, lambda i: i.sub is None and (i._revoked or not i.scheduled))"],
         props=["C08", "C20", "C07"])

contract("usim._primitives.flag.InverseFlag.set",
         params={"self": REF("InverseFlag"), "to": BOOL},
         requires=["loop.activity is me"],
         suspends=(1, None),
         ensures=["loop.activity is me"],
         on_signal=["loop.activity is me"], on_close=[],
         props=["C08", "C20"])


# ====================================================================================================== connectives (C08)
model("Connective", module="usim._primitives.condition", fields={"_children": LIST(REF("Condition"))}, final=["_children"])
model("All", module="usim._primitives.condition", fields={})
model("Any", module="usim._primitives.condition", fields={})

# Inv_cond1 for connectives (C08 "never missed, however deeply nested"; C07 for until(a | b)): nobody stays parked on a
# connective that evaluates true.  Waiters get parked on a connective by until(connective) and by an enclosing
# connective (Condition.__subscribe__); nothing ever triggers a connective's own waiter list, so the functions that can
# turn a connective true (Flag.set, ...) cannot re-establish this invariant: known finding D3, see known_findings.json.
invariant("Connective", "no_waiter_when_true", "implies(bool(self), len(self._waiting) == 0)", props=["C08", "C07"])

# contextlib.ExitStack, used by Connective.__await_children__ to hold one subscription per child that is not true yet.
# ASSUMED interface (the stack and the subscriptions it enters are not modelled object by object):
#   enter_context(child.__subscription__()) subscribes the running activity to that child: it only touches the subscription
#     state of notifications/interrupts, keeps their invariants, takes no time and does not suspend;
#   leaving the block unsubscribes all of them again; an exception is swallowed only if it is an Interrupt (one of the
#     wake-ups the subscriptions created), every other exception and a normal exit pass through unchanged.
model("ExitStack", module="contextlib", fields={})
SUBSCRIPTION_STATE = ["Notification._waiting", "Interrupt.sub", "Interrupt.target", "Interrupt.pos", "Interrupt.scheduled",
                      "Interrupt.due", "Interrupt.immediate", "Interrupt._revoked", "Loop._pending"]
abstract_contract("ExitStack", "enter_context", ["cm"], assumed=True,
                  params={"self": REF("ExitStack"), "cm": ANY}, inv_scope=NS,
                  ensures=["loop.time == old(loop.time)", "loop.activity is old(loop.activity)"],
                  modifies=SUBSCRIPTION_STATE,
                  note="assumed: contextlib.ExitStack + Notification.__subscription__ (the latter is proved where it is used directly)")
abstract_contract("ExitStack", "__exit__", ["exc"], assumed=True,
                  params={"self": REF("ExitStack"), "exc": ANY}, returns=BOOL, inv_scope=NS,
                  ensures=["loop.time == old(loop.time)", "loop.activity is old(loop.activity)",
                           "implies(exc is None or not is_a(exc, Interrupt), result == False)"],
                  modifies=SUBSCRIPTION_STATE,
                  note="assumed: see enter_context")

contract("usim._primitives.condition.All.__bool__", pure=True,
         params={"self": REF("All")}, returns=BOOL,
         ensures=["result == forall(self._children, lambda c: bool(c))"], modifies=[], props=["C08"])
contract("usim._primitives.condition.Any.__bool__", pure=True,
         params={"self": REF("Any")}, returns=BOOL,
         ensures=["result == exists(self._children, lambda c: bool(c))"], modifies=[], props=["C08"])

# await (a & b), await (a | b): like every condition -- at least one suspension, and completion only in a segment in
# which the connective evaluates true (it is re-evaluated after every wake-up)
contract("usim._primitives.condition.Connective.__await_children__",
         params={"self": REF("Connective")}, returns=BOOL, inv_scope=NS,
         requires=["loop.activity is me"],
         suspends=(1, None),
         ensures=["result == True", "bool(self)", "loop.activity is me"],
         on_signal=["loop.activity is me"], on_close=[],
         loop_invariants={"while#1": ["loop.activity is me"], "for#1": ["loop.activity is me"]},
         loop_consistent=["for#1"],
         props=["C08", "C20"])

contract("usim._primitives.condition.Connective.__await__",
         params={"self": REF("Connective")}, returns=BOOL, inv_scope=NS,
         requires=["loop.activity is me"],
         suspends=(1, None),
         ensures=["result == True", "bool(self)", "loop.activity is me"],
         on_signal=["loop.activity is me"], on_close=[],
         props=["C08", "C20"])

contract("usim._primitives.condition.Connective.__init__",
         params={"self": REF("Connective"), "conditions": LIST(REF("Condition"))}, inv_scope=NS,
         requires=["forall(Interrupt, lambda i: i.sub is not self)"],
         ensures=["self._children == conditions", "len(self._waiting) == 0"],
         modifies=["Connective._children@self", "Notification._waiting@self"],
         props=["C08"])

# boolean algebra on the current values (C08): a & b, a | b
# (structure first, then -- using the structure clauses as lemmas -- the truth value)
def _alg(kind, head, tail_plain, tail_conn):
    cls = "All" if kind == "and" else "Any"
    op = "and" if kind == "and" else "or"
    oc = "cast(other, %s)._children" % cls
    if head == "self":      # Condition.__and__/__or__: the receiver is one child
        lem = ["implies(not isinstance(other, %s), len(result._children) == 2 and result._children[0] is self "
               "and result._children[1] is other)" % cls,
               "implies(isinstance(other, %s), len(result._children) == 1 + len(%s) and result._children[0] is self)" % (cls, oc),
               "implies(isinstance(other, %s), forall(int, lambda j: implies(0 <= j and j < len(%s), result._children[j + 1] is %s[j])))" % (cls, oc, oc)]
    else:                   # All.__and__/Any.__or__: the receiver's children come first
        lem = ["len(result._children) >= len(self._children) and "
               "forall(int, lambda j: implies(0 <= j and j < len(self._children), result._children[j] is self._children[j]))",
               "implies(not isinstance(other, %s), len(result._children) == len(self._children) + 1 and "
               "result._children[len(self._children)] is other)" % cls,
               "implies(isinstance(other, %s), len(result._children) == len(self._children) + len(%s) and "
               "forall(int, lambda j: implies(0 <= j and j < len(%s), result._children[len(self._children) + j] is %s[j])))" % (cls, oc, oc, oc)]
    return ["exact_class(result, %s)" % cls, "fresh_obj(result)",
            "implies(not isinstance(other, %s), result._children == %s)" % (cls, tail_plain),
            "implies(isinstance(other, %s), result._children == %s)" % (cls, tail_conn)] + lem + [
            "bool(result) == (bool(self) %s bool(other))" % op]

ALG_MODIFIES = ["Connective._children", "Notification._waiting"]
ALG = dict(inv_scope=NS, requires=["other is not None"], modifies=ALG_MODIFIES, check_frame=False, chain_ensures=True, props=["C08"])
contract("usim._primitives.condition.Condition.__and__",
         params={"self": REF("Condition"), "other": REF("Condition")}, returns=REF("All"),
         ensures=_alg("and", "self", "[self, other]", "[self] + cast(other, All)._children"), **ALG)
contract("usim._primitives.condition.Condition.__or__",
         params={"self": REF("Condition"), "other": REF("Condition")}, returns=REF("Any"),
         ensures=_alg("or", "self", "[self, other]", "[self] + cast(other, Any)._children"), **ALG)
contract("usim._primitives.condition.All.__and__",
         params={"self": REF("All"), "other": REF("Condition")}, returns=REF("All"),
         ensures=_alg("and", "children", "self._children + [other]", "self._children + cast(other, All)._children"), **ALG)
contract("usim._primitives.condition.Any.__or__",
         params={"self": REF("Any"), "other": REF("Condition")}, returns=REF("Any"),
         ensures=_alg("or", "children", "self._children + [other]", "self._children + cast(other, Any)._children"), **ALG)

# ~c: a condition whose value is the negation of c's (C08).  Interface every concrete condition is checked against where
# it is modelled (Flag, InverseFlag, Done, NotDone, After, Before, Eternity, Instant, All, Any); assumed for the others
# (AsyncComparison of tracked values / resource levels).  Moment and Delay refuse inversion by design.
abstract_contract("Condition", "__invert__", [],
                  params={"self": REF("Condition")}, returns=REF("Condition"), inv_scope=NS,
                  raises={"NotImplementedError": dict(), "TypeError": dict()},
                  ensures=["allocated(result) and is_a(result, Condition)", "bool(result) == (not bool(self))",
                           # inversion builds new objects; the value of every existing condition stays what it was
                           "forall(Condition, lambda c: implies(not fresh_obj(c), bool(c) == old(bool(c))))",
                           'only_new_changed("Connective._children")', 'only_new_changed("Notification._waiting")'],
                  modifies=["Connective._children", "Notification._waiting"], check_frame=False)

INV = dict(inv_scope=NS + ["Flag", "InverseFlag"], chain_ensures=True, check_frame=False, props=["C08"])
contract("usim._primitives.flag.Flag.__invert__",
         params={"self": REF("Flag")}, returns=REF("InverseFlag"),
         ensures=["result is self._inverse", "bool(result) == (not bool(self))", "forall(Condition, lambda c: implies(not fresh_obj(c), bool(c) == old(bool(c))))"], modifies=[], **INV)
contract("usim._primitives.flag.InverseFlag.__invert__",
         params={"self": REF("InverseFlag")}, returns=REF("Flag"),
         ensures=["result is self._event", "bool(result) == (not bool(self))", "forall(Condition, lambda c: implies(not fresh_obj(c), bool(c) == old(bool(c))))"], modifies=[], **INV)
# De Morgan (All.__invert__ / Any.__invert__ map `~` over the children inside a generator expression): not under contract --
# the engine has no summary for comprehensions whose element expression allocates; listed as a gap of C08.

# De Morgan: ~(a & b & ...) is (~a | ~b | ...) and dually
def _demorgan(src, dst):
    return dict(
        params={"self": REF(src)}, returns=REF(dst), inv_scope=NS,
        # type invariant of the input: the children are existing condition objects
        requires=["forall(self._children, lambda c: allocated(c) and is_a(c, Condition))"],
        raises={"NotImplementedError": dict(), "TypeError": dict()},
        ensures=["exact_class(result, %s)" % dst, "len(result._children) == len(self._children)",
                 "forall(int, lambda i: implies(0 <= i and i < len(self._children), "
                 "bool(result._children[i]) == (not bool(self._children[i]))))",
                 "bool(result) == (not bool(self))"],
        loop_invariants={"comp#1": [
            "len(_res) == _i",
            "forall(int, lambda j: implies(0 <= j and j < _i, allocated(_res[j]) and is_a(_res[j], Condition) and "
            "bool(cast(_res[j], Condition)) == (not bool(_iter[j]))))",
            "forall(int, lambda j: implies(0 <= j and j < len(_iter), allocated(_iter[j]) and is_a(_iter[j], Condition)))",
            "len(self._children) == len(_iter)",
            "forall(int, lambda j: implies(0 <= j and j < len(_iter), self._children[j] is _iter[j]))"]},
        loop_consistent=["comp#1"],
        modifies=["Connective._children", "Notification._waiting"], chain_ensures=True, check_frame=False, props=["C08"])

contract("usim._primitives.condition.All.__invert__", **_demorgan("All", "Any"))
contract("usim._primitives.condition.Any.__invert__", **_demorgan("Any", "All"))
