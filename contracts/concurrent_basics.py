"""collect() (C16): the thin composition of Scope, Scope.do and Task.__await__."""
from pyvc.dsl import *
from contracts import context as _c   # noqa: F401
from contracts import task as _t      # noqa: F401

NS = ["Notification", "Interrupt.parked_or_scheduled"]
default_scope(NS + ["Task", "Done", "NotDone", "coroutine", "Scope", "Condition", "Flag", "InverseFlag", "CancelTask", "InterruptScope"])
DEAD_NEW = "forall_new(Interrupt, lambda i: i.sub is None and (i._revoked or not i.scheduled))"

contract("usim._concurrent.basics.collect",
         params={"activities": LIST(ANY)}, returns=LIST(ANY),
         requires=["loop.activity is me", "forall(activities, lambda a: a is not None)"],
         suspends=(1, None),
         # one result per activity, in argument order: result[i] is the outcome of the task that ran activities[i]
         ensures=["len(result) == len(activities)",
                  "len(tasks) == len(activities)",
                  "forall(int, lambda i: implies(0 <= i and i < len(activities), tasks[i].payload is activities[i] and "
                  "tasks[i]._result is not None and tasks[i]._result[1] is None and result[i] is tasks[i]._result[0]))",
                  "loop.activity is me"],
         raises={"BaseException": dict()},
         loop_invariants={
             "comp#2": ["len(_res) == _i", "loop.activity is me",
                        "forall(int, lambda j: implies(0 <= j and j < _i, allocated(_res[j]) and is_a(_res[j], Task)))",
                        "forall(int, lambda j: implies(0 <= j and j < _i, _res[j].payload is _iter[j]))"],
             "comp#1": ["len(_res) == _i", "loop.activity is me",
                        "forall(int, lambda j: implies(0 <= j and j < len(_iter), allocated(_iter[j]) and is_a(_iter[j], Task)))",
                        "forall(int, lambda j: implies(0 <= j and j < _i, _iter[j]._result is not None and _iter[j]._result[1] is None "
                        "and _res[j] is _iter[j]._result[0]))"]},
         comp_types={"comp#2": REF("Task")}, loop_consistent=["comp#2"],
         on_signal=[], on_close=[],
         props=["C16", "C20"])

contract("usim._concurrent.basics._first_monitor",
         params={"contestant": ANY, "queue": REF("Queue")},
         inv_scope=["Notification", "Interrupt.parked_or_scheduled", "Lock", "Interrupt.live_lock_wakeup_is_owner", "Queue"],
         requires=["loop.activity is me", "queue is not None"],
         suspends=(1, None),
         raises={"BaseException": dict()},
         ensures=["loop.activity is me"],
         on_signal=[], on_close=[],
         props=["C16"])

# first(*activities, count=k): hands out at most k results (all of them for k None), refuses k > len(activities)
contract("usim._concurrent.basics.first",
         params={"activities": LIST(ANY), "count": OPT(INT)},
         requires=["loop.activity is me", "forall(activities, lambda a: a is not None)"],
         suspends=(0, None),
         raises={"ValueError": dict(when="count is not None and count > len(activities)", suspended=False),
                 "BaseException": dict()},
         step_ensures=["yields() < ite(count is None, len(activities), count)"],     # the item about to be handed out is within the limit
         step_suspends=(0, None),
         # a normal end: never more than the requested number of results were handed out
         ensures=["implies(ite(count is None, len(activities), count) >= 0, yields() <= ite(count is None, len(activities), count))",
                  "implies(ite(count is None, len(activities), count) < 0, yields() == 0)"],
         loop_invariants={"for#1": ["loop.activity is me"],
                          "afor#1": ["loop.activity is me", "yields() == _afor_n", "_afor_n >= 0",
                                     "implies(_afor_limit >= 0, _afor_n <= _afor_limit)", "implies(_afor_limit < 0, _afor_n == 0)",
                                     "scope._interruptable and scope._activity is me and not isinstance(scope, InterruptScope)",
                                     "results._read_mutex._owner is not me",
                                     "_afor_limit == ite(old(count) is None, len(activities), old(count))"]},
         loop_consistent=["for#1"],
         # the result queue is private to this call: the consumer of first() cannot touch its read mutex
         stable=["results._read_mutex._owner is me"],
         on_signal=[], on_close=[],
         props=["C16"])
