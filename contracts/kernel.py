"""Kernel theory K: Loop, Interrupt, Activation (DESIGN section 4)."""
from pyvc.dsl import *

ACT = TUP(ANY, OPT(REF("Interrupt")))     # Activation(target, signal) as an immutable value

model("Activation", module="usim._core.loop", value=True,
      fields={"target": ANY, "signal": OPT(REF("Interrupt"))})

model("Interrupt", module="usim._core.loop",
      fields={"token": ANY, "scheduled": BOOL, "_revoked": BOOL},
      ghost={"sub": OPT(REF("Notification")),     # notification this interrupt is currently subscribed to
             "target": ANY,                         # the activity it is addressed to
             "due": REAL,                           # queue key under which it was scheduled
             "pos": INT,                            # index in sub._waiting while parked
             "immediate": BOOL},                    # subscribed to a condition that already held (delivered at once)
      ghost_defaults={"sub": None, "target": None, "immediate": False},
      final=["token"])

model("Loop", module="usim._core.loop",
      fields={"time": REAL, "turn": INT, "activity": ANY,
              "_pending": LIST(ACT),
              "_activations": REF("WaitQueue")},
      final=["_activations"], none_as_empty=["_pending"])

# abstract view of both WaitQueue back ends: key -> FIFO of activations (length 0 = key absent)
model("WaitQueue", module="usim._core.waitq", fields={}, ghost={})

contract("usim._core.loop.Interrupt.__init__",
         params={"self": REF("Interrupt"), "token": ANY},
         ensures=["not self.scheduled", "not self._revoked"],
         modifies=["Interrupt.token@self", "Interrupt.scheduled@self", "Interrupt._revoked@self"],
         no_invariants=True, props=["C03"], inline=True)

contract("usim._core.loop.Interrupt.revoke",
         params={"self": REF("Interrupt")},
         ensures=["self._revoked", "self.scheduled == old(self.scheduled)"],
         modifies=["Interrupt._revoked@self"], props=["C03", "C01"], inline=True, no_invariants=True,
         note="primitive used in the middle of operations: callers inline it and answer for the invariants")

contract("usim._core.loop.Interrupt.__bool__",
         params={"self": REF("Interrupt")}, returns=BOOL,
         ensures=["result == (not self._revoked)"], modifies=[], pure=True, props=["C03"], inline=True, no_invariants=True)

contract("usim._core.loop.Activation.__bool__",
         params={"self": ACT}, returns=BOOL,
         ensures=["result == (self.signal is None or not self.signal._revoked)"],
         modifies=[], pure=True, props=["C03", "C01"], inline=True, no_invariants=True)

# ---- abstract wait queue (view): per key the FIFO of activations; length 0 = key absent
model("WaitQueue", module="usim._core.waitq", fields={},
      ghost={"qlen": MAP(REAL, INT), "qitems": MAP(REAL, MAP(INT, ACT))})

abstract_contract("WaitQueue", "push", ["key", "item"], allocates=False,
                  params={"self": REF("WaitQueue"), "key": REAL, "item": ACT},
                  ensures=["self.qlen == store(old(self.qlen), key, old(self.qlen)[key] + 1)",
                           "self.qitems == store(old(self.qitems), key, store(old(self.qitems)[key], old(self.qlen)[key], item))"],
                  modifies=["WaitQueue.qlen@self", "WaitQueue.qitems@self"], no_invariants=True,
                  note="K1: interface both HQWaitQueue and SDWaitQueue are checked against")

NONEMPTY = "exists(real, lambda k: self.qlen[k] >= 1)"
abstract_contract("WaitQueue", "__bool__", [], allocates=False, pure=True,
                  params={"self": REF("WaitQueue")}, returns=BOOL,
                  ensures=["result == " + NONEMPTY], modifies=[], no_invariants=True,
                  note="K1: checked for HQWaitQueue and SDWaitQueue in contracts/waitq.py")
# pop: the smallest date that has an entry, with its complete FIFO in insertion order; only that date is removed
abstract_contract("WaitQueue", "pop", [],
                  params={"self": REF("WaitQueue")}, returns=PYTUP(REAL, LIST(ACT)),
                  requires=[NONEMPTY],
                  ensures=["old(self.qlen)[result[0]] >= 1",
                           "forall(real, lambda k: implies(old(self.qlen)[k] >= 1, result[0] <= k))",
                           "len(result[1]) == old(self.qlen)[result[0]]",
                           "forall(int, lambda i: implies(0 <= i and i < len(result[1]), result[1][i] == old(self.qitems)[result[0]][i]))",
                           "self.qlen == store(old(self.qlen), result[0], 0)"],
                  modifies=["WaitQueue.qlen@self"], no_invariants=True,
                  note="K1: checked for HQWaitQueue and SDWaitQueue in contracts/waitq.py")

SCHED_PARAMS = {"self": REF("Loop"), "target": ANY, "signal": OPT(REF("Interrupt")), "delay": OPT(REAL), "at": OPT(REAL)}

contract("usim._core.loop.Loop.schedule", allocates=False,
         params=SCHED_PARAMS,
         asserts={1: "usage", 2: "usage", 3: "usage"},
         requires=["self is loop", "target is not None",
                   "delay is None or at is None",
                   "delay is None or delay > 0",
                   "at is None or at > self.time"],
         ensures=[
             # exactly one activation is appended, to the queue the date selects; nothing else changes
             "implies(delay is None and at is None, "
             "        self._pending == old(self._pending) + [Activation(target, signal)] "
             "        and self._activations.qlen == old(self._activations.qlen) "
             "        and self._activations.qitems == old(self._activations.qitems))",
             "implies(delay is not None, self._pending == old(self._pending) "
             "        and self._activations.qlen == store(old(self._activations.qlen), old(self.time) + delay, old(self._activations.qlen)[old(self.time) + delay] + 1)"
             "        and self._activations.qitems == store(old(self._activations.qitems), old(self.time) + delay, "
             "              store(old(self._activations.qitems)[old(self.time) + delay], old(self._activations.qlen)[old(self.time) + delay], Activation(target, signal))))",
             "implies(delay is None and at is not None, self._pending == old(self._pending) "
             "        and self._activations.qlen == store(old(self._activations.qlen), at, old(self._activations.qlen)[at] + 1)"
             "        and self._activations.qitems == store(old(self._activations.qitems), at, "
             "              store(old(self._activations.qitems)[at], old(self._activations.qlen)[at], Activation(target, signal))))",
             "implies(signal is not None, signal.scheduled and signal._revoked == old(signal._revoked))",
             "self.time == old(self.time) and self.turn == old(self.turn) and self.activity is old(self.activity)",
             # ghost: delivery data of the signal
             "implies(signal is not None, signal.target is target and signal.due == "
             "        ite(delay is not None, old(self.time) + delay, ite(at is not None, at, old(self.time))))",
         ],
         ghost_exit=["if signal is not None:\n    signal.target = target\n    signal.due = (self.time + delay) if delay is not None else (at if at is not None else self.time)"],
         modifies=["Loop._pending@self", "WaitQueue.qlen@self._activations", "WaitQueue.qitems@self._activations",
                   "Interrupt.scheduled@signal", "Interrupt.target@signal", "Interrupt.due@signal"],
         no_invariants=True,
         props=["C01", "C02", "C03"])


# ---------------------------------------------------------------------------------------------- the event loop proper
# What running one activation may do to the loop (interface to ALL code outside this function: activities and the
# framework functions they call reach the loop only through Loop.schedule, whose contract is proved above):
#   * the clock, the queue object and the pending FIFO object stay the same,
#   * the pending FIFO and the queue's FIFOs only grow at their ends,
#   * new queue entries lie strictly after the current time (usage assertions of Loop.schedule).
RUN_CORO_EFFECT = [
    "self.time == old(self.time)",
    "len(self._pending) >= len(old(self._pending)) and self._pending[:len(old(self._pending))] == old(self._pending)",
    "forall(real, lambda k: self._activations.qlen[k] >= old(self._activations.qlen)[k])",
    "forall(real, lambda k: implies(self._activations.qlen[k] > old(self._activations.qlen)[k], k > self.time))",
]
contract("usim._core.loop.Loop._run_coroutine", assumed=True,
         params={"self": REF("Loop"), "target": ANY, "signal": OPT(REF("Interrupt"))},
         requires=["self is loop"],
         ensures=RUN_CORO_EFFECT,
         raises={"BaseException": dict(ensures=RUN_CORO_EFFECT)},
         modifies=["Loop._pending@self", "Loop.turn@self", "Loop.activity@self", "WaitQueue.qlen@self._activations", "WaitQueue.qitems@self._activations"],
         havoc_all=True, no_invariants=True,
         note="ASSUMED interface to foreign code: everything an activation runs touches the loop only via Loop.schedule "
              "(scan W: no other writer of Loop.time/_pending/_activations) and obeys schedule's usage assertions")

contract("usim._core.loop.Loop._run_events",
         params={"self": REF("Loop")},
         requires=["self is loop", "self._activations is not None", "len(self._pending) == 0",
                   # nothing is queued for a date before the start time (Loop.__init__ queues the roots at `start`)
                   "forall(real, lambda k: self._activations.qlen[k] >= 0)",
                   "forall(real, lambda k: implies(self._activations.qlen[k] >= 1, k >= self.time))"],
         # C15: returns only at quiescence -- nothing queued, nothing pending; C01: the clock never ran backwards
         ensures=["forall(real, lambda k: self._activations.qlen[k] == 0)", "len(self._pending) == 0", "self.time >= old(self.time)"],
         raises={"BaseException": dict(ensures=["self.time >= old(self.time)"])},
         loop_invariants={
             # C01: between time steps every queued date lies strictly after the clock (first step: at or after it), so the
             # next date popped is later than the current one and no work for the current date is left behind
             "while#1": ["self is loop", "self._activations is activations", "self.time >= old(self.time)",
                         # the clock only moves on when the FIFO of the current time step has been drained
                         "len(self._pending) == 0",
                         "forall(real, lambda k: self._activations.qlen[k] >= 0)",
                         "forall(real, lambda k: implies(self._activations.qlen[k] >= 1, k >= self.time))"],
             "while#2": ["self is loop", "self._activations is activations", "self.time == now", "now >= old(self.time)",
                         "forall(real, lambda k: self._activations.qlen[k] >= 0)",
                         "forall(real, lambda k: implies(self._activations.qlen[k] >= 1, k > self.time))"],
         },
         havoc_all=True,        # it runs every activity: no frame
         no_invariants=True,
         props=["C01", "C15"])

# Loop.__init__: the roots are queued at `start`, in argument order; nothing else is queued
contract("usim._core.loop.Loop.__init__",
         params={"self": REF("Loop"), "coroutines": LIST(ANY), "start": REAL},
         ensures=["self.time == start", "self.turn == 0", "self.activity is None", "self._activations is not None",
                  "forall(real, lambda k: self._activations.qlen[k] == ite(k == start, len(coroutines), 0))",
                  "forall(int, lambda i: implies(0 <= i and i < len(coroutines), "
                  "       self._activations.qitems[start][i] == Activation(coroutines[i], None)))"],
         loop_invariants={"for#1": [
             "self.time == start", "self._activations is not None",
             "forall(real, lambda k: self._activations.qlen[k] == ite(k == start, _i, 0))",
             "forall(int, lambda i: implies(0 <= i and i < _i, self._activations.qitems[start][i] == Activation(coroutines[i], None)))"]},
         no_invariants=True,
         props=["C01", "C15", "C02"])
