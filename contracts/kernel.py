"""Kernel theory K: Loop, Interrupt, Activation (DESIGN section 4)."""
from pyvc.dsl import *

ACT = TUP(ANY, OPT(REF("Interrupt")))     # Activation(target, signal) as an immutable value

model("Activation", module="usim._core.loop", value=True,
      fields={"target": ANY, "signal": OPT(REF("Interrupt"))})

model("Interrupt", module="usim._core.loop",
      fields={"token": ANY, "scheduled": BOOL, "_revoked": BOOL},
      ghost={"sub": OPT(REF("Notification")),     # notification this interrupt is currently subscribed to
             "target": ANY,                         # the activity it is addressed to
             "due": REAL,                           # queue key under which it was scheduled
             "pos": INT,                            # index in sub._waiting while parked
             "immediate": BOOL},                    # subscribed to a condition that already held (delivered at once)
      ghost_defaults={"sub": None, "target": None, "immediate": False},
      final=["token"])

model("Loop", module="usim._core.loop",
      fields={"time": REAL, "turn": INT, "activity": ANY,
              "_pending": LIST(ACT),
              "_activations": REF("WaitQueue")},
      final=["_activations"])

# abstract view of both WaitQueue back ends: key -> FIFO of activations (length 0 = key absent)
model("WaitQueue", module="usim._core.waitq", fields={}, ghost={})

contract("usim._core.loop.Interrupt.__init__",
         params={"self": REF("Interrupt"), "token": ANY},
         ensures=["not self.scheduled", "not self._revoked"],
         modifies=["Interrupt.token@self", "Interrupt.scheduled@self", "Interrupt._revoked@self"],
         no_invariants=True, props=["C03"], inline=True)

contract("usim._core.loop.Interrupt.revoke",
         params={"self": REF("Interrupt")},
         ensures=["self._revoked", "self.scheduled == old(self.scheduled)"],
         modifies=["Interrupt._revoked@self"], props=["C03", "C01"], inline=True, no_invariants=True,
         note="primitive used in the middle of operations: callers inline it and answer for the invariants")

contract("usim._core.loop.Interrupt.__bool__",
         params={"self": REF("Interrupt")}, returns=BOOL,
         ensures=["result == (not self._revoked)"], modifies=[], pure=True, props=["C03"], inline=True, no_invariants=True)

contract("usim._core.loop.Activation.__bool__",
         params={"self": ACT}, returns=BOOL,
         ensures=["result == (self.signal is None or not self.signal._revoked)"],
         modifies=[], pure=True, props=["C03", "C01"], inline=True, no_invariants=True)

# ---- abstract wait queue (view): per key the FIFO of activations; length 0 = key absent
model("WaitQueue", module="usim._core.waitq", fields={},
      ghost={"qlen": MAP(REAL, INT), "qitems": MAP(REAL, MAP(INT, ACT))})

abstract_contract("WaitQueue", "push", ["key", "item"], allocates=False,
                  params={"self": REF("WaitQueue"), "key": REAL, "item": ACT},
                  ensures=["self.qlen == store(old(self.qlen), key, old(self.qlen)[key] + 1)",
                           "self.qitems == store(old(self.qitems), key, store(old(self.qitems)[key], old(self.qlen)[key], item))"],
                  modifies=["WaitQueue.qlen@self", "WaitQueue.qitems@self"], no_invariants=True,
                  note="K1: interface both HQWaitQueue and SDWaitQueue are checked against")

SCHED_PARAMS = {"self": REF("Loop"), "target": ANY, "signal": OPT(REF("Interrupt")), "delay": OPT(REAL), "at": OPT(REAL)}

contract("usim._core.loop.Loop.schedule", allocates=False,
         params=SCHED_PARAMS,
         asserts={1: "usage", 2: "usage", 3: "usage"},
         requires=["self is loop", "target is not None",
                   "delay is None or at is None",
                   "delay is None or delay > 0",
                   "at is None or at > self.time"],
         ensures=[
             # exactly one activation is appended, to the queue the date selects; nothing else changes
             "implies(delay is None and at is None, "
             "        self._pending == old(self._pending) + [Activation(target, signal)] "
             "        and self._activations.qlen == old(self._activations.qlen) "
             "        and self._activations.qitems == old(self._activations.qitems))",
             "implies(delay is not None, self._pending == old(self._pending) "
             "        and self._activations.qlen == store(old(self._activations.qlen), old(self.time) + delay, old(self._activations.qlen)[old(self.time) + delay] + 1)"
             "        and self._activations.qitems == store(old(self._activations.qitems), old(self.time) + delay, "
             "              store(old(self._activations.qitems)[old(self.time) + delay], old(self._activations.qlen)[old(self.time) + delay], Activation(target, signal))))",
             "implies(delay is None and at is not None, self._pending == old(self._pending) "
             "        and self._activations.qlen == store(old(self._activations.qlen), at, old(self._activations.qlen)[at] + 1)"
             "        and self._activations.qitems == store(old(self._activations.qitems), at, "
             "              store(old(self._activations.qitems)[at], old(self._activations.qlen)[at], Activation(target, signal))))",
             "implies(signal is not None, signal.scheduled and signal._revoked == old(signal._revoked))",
             "self.time == old(self.time) and self.turn == old(self.turn) and self.activity is old(self.activity)",
             # ghost: delivery data of the signal
             "implies(signal is not None, signal.target is target and signal.due == "
             "        ite(delay is not None, old(self.time) + delay, ite(at is not None, at, old(self.time))))",
         ],
         ghost_exit=["if signal is not None:\n    signal.target = target\n    signal.due = (self.time + delay) if delay is not None else (at if at is not None else self.time)"],
         modifies=["Loop._pending@self", "WaitQueue.qlen@self._activations", "WaitQueue.qitems@self._activations",
                   "Interrupt.scheduled@signal", "Interrupt.target@signal", "Interrupt.due@signal"],
         no_invariants=True,
         props=["C01", "C02", "C03"])
