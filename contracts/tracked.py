"""Tracked values (C08 "never missed" for tracked comparisons, C20): Tracked.set, AsyncOperation.__await__."""
from pyvc.dsl import *
from contracts import condition as _c   # noqa: F401

NS = ["Notification", "Interrupt.parked_or_scheduled"]
DEAD_NEW = "forall_new(Interrupt, lambda i: i.sub is None and (i._revoked or not i.scheduled))"
default_scope(NS)

model("Tracked", module="usim._basics.tracked",
      fields={"_value": ANY, "_listeners": SET(REF("AsyncComparison"))})
# ghost: the operand values a comparison was last (re-)evaluated for -- "it has been told about the current value"
model("AsyncComparison", module="usim._basics.tracked",
      fields={"_left": REF("Tracked"), "_condition": ANY, "_right": ANY, "_test": ANY},
      ghost={"seen_left": ANY, "seen_right": ANY}, final=["_left", "_condition", "_right"])

# __on_changed__: re-evaluate the comparison for the operands' current values and wake the waiters if it holds.
# ASSUMED here (its body calls the closure stored in `_test`, which is outside the engine's subset); what Tracked.set
# relies on is only that the call happens for every listener before the setter yields.
contract("usim._basics.tracked.AsyncComparison.__on_changed__", assumed=True,
         params={"self": REF("AsyncComparison")}, inv_scope=NS,
         ensures=["self.seen_left is self._left._value",
                  "implies(is_a(self._right, Tracked), self.seen_right is cast(self._right, Tracked)._value)",
                  "loop.time == old(loop.time)", "loop.activity is old(loop.activity)",
                  "forall(AsyncComparison, lambda c: implies(c is not self, c.seen_left is old(c.seen_left) and c.seen_right is old(c.seen_right)))"],
         modifies=["AsyncComparison.seen_left", "AsyncComparison.seen_right", "Notification._waiting@self", "Loop._pending",
                   "Interrupt.scheduled", "Interrupt.due", "Interrupt.target", "Interrupt.pos"],
         note="assumed: evaluates the stored closure and triggers the condition when it holds")

contract("usim._basics.tracked.Tracked.__init__",
         params={"self": REF("Tracked"), "value": ANY}, no_invariants=True,
         ensures=["self._value is value", "forall(AsyncComparison, lambda c: not (c in self._listeners))"],
         modifies=["Tracked._value@self", "Tracked._listeners@self"], props=["C08"])

contract("usim._basics.tracked.Tracked.__add_listener__",
         params={"self": REF("Tracked"), "listener": REF("AsyncComparison")}, no_invariants=True,
         ensures=["listener in self._listeners",
                  "forall(AsyncComparison, lambda c: implies(old(c in self._listeners), c in self._listeners))"],
         modifies=["Tracked._listeners@self"], props=["C08"])

# set: the new value is in force and EVERY listening comparison has been re-evaluated for it before the setter yields
# (so no waiter misses the time step in which its comparison became true), and the setter always yields once (C20)
LISTENERS_TOLD = ("forall(AsyncComparison, lambda c: implies(c in self._listeners, "
                  "(c._left is not self or c.seen_left is to) and (c._right is not self or c.seen_right is to)))")
contract("usim._basics.tracked.Tracked.set",
         params={"self": REF("Tracked"), "to": ANY},
         requires=["loop.activity is me"],
         suspends=(1, None),
         at_suspension=["self._value is to", LISTENERS_TOLD],
         ensures=["loop.activity is me"],
         on_signal=["loop.activity is me"], on_close=[],
         on_exit=[DEAD_NEW],
         loop_invariants={"for#1": [
             "self._value is to", "loop.activity is me",
             "forall(int, lambda j: implies(0 <= j and j < _i, "
             "(_iter[j]._left is not self or _iter[j].seen_left is to) and (_iter[j]._right is not self or _iter[j].seen_right is to)))"]},
         loop_consistent=["for#1"],
         props=["C08", "C20"])


# a comparison registers itself with every tracked operand, so that Tracked.set reaches it
contract("usim._basics.tracked.AsyncComparison.__init__",
         params={"self": REF("AsyncComparison"), "left": ANY, "condition": ANY, "right": ANY}, inv_scope=NS,
         requires=["forall(Interrupt, lambda i: i.sub is not self)"],
         raises={"TypeError": dict(when="not is_a(left, Tracked)")},
         ensures=["self._left is left and self._right is right and self._condition is condition",
                  "self in cast(left, Tracked)._listeners",
                  "implies(is_a(right, Tracked), self in cast(right, Tracked)._listeners)",
                  "len(self._waiting) == 0"],
         check_frame=False,
         modifies=["AsyncComparison._left@self", "AsyncComparison._condition@self", "AsyncComparison._right@self",
                   "AsyncComparison._test@self", "Tracked._listeners", "Notification._waiting@self"],
         props=["C08"])
