"""C19 SimPy compatibility resources (usim.py.resources): synchronous data structures.

Abstract view: a resource is (content, put_queue, get_queue); requests are events with the ghost `fired` ("granted").
`Event.succeed` / `Event.triggered` (usim.py.events, property C18, not under contract) are ASSUMED interfaces tied to that ghost.
"""
from pyvc.dsl import *

default_scope(["Container"])

model("Event", module="usim.py.events",
      fields={"env": REF("Environment"), "callbacks": LIST(ANY), "_value": ANY, "defused": BOOL},
      ghost={"fired": BOOL, "val": ANY})
model("BaseRequest", module="usim.py.resources.base", fields={"resource": REF("BaseResource"), "proc": ANY})
# (a request belongs to the resource it was created for: `resource` is written by BaseRequest.__init__ only)
model("Put", module="usim.py.resources.base", fields={})
model("Get", module="usim.py.resources.base", fields={})
class_typed_sequence("BaseResource", "put_queue", "PutQueue")
class_typed_sequence("BaseResource", "get_queue", "GetQueue")
disjoint_classes("Put", "Get", "a request is either a put or a get; true of every class in the repository")
model("Environment", module="usim.py.core", fields={"active_process": ANY})
contract("usim.py.core.Environment.now", assumed=True, pure=True,
         params={"self": REF("Environment")}, returns=REAL, ensures=[], modifies=[], no_invariants=True,
         note="assumed: Environment.now reads the clock of the running simulation and changes nothing")
model("BaseResource", module="usim.py.resources.base",
      fields={"_env": REF("Environment"), "_capacity": REAL, "put_queue": LIST(REF("Put")), "get_queue": LIST(REF("Get"))})

# ---------------------------------------------------------------------------------------------- assumed: events (C18)
contract("usim.py.events.Event.succeed", assumed=True,
         params={"self": REF("Event"), "value": ANY}, returns=REF("Event"),
         requires=["not self.fired"],
         ensures=["self.fired", "self.val is value", "result is self"],
         modifies=["Event.fired@self", "Event.val@self", "Event._value@self"], allocates=False,
         no_invariants=True,
         note="assumed: Event.succeed marks the event triggered with the value (second trigger is a RuntimeError), wakes its waiters "
              "and schedules its callbacks for the current time step; it touches no resource state and creates no object that the "
              "resource contracts can observe (allocates=False) (usim.py.events is not under contract)")
contract("usim.py.events.Event.triggered", assumed=True, pure=True,
         params={"self": REF("Event")}, returns=BOOL, ensures=["result == self.fired"], modifies=[], no_invariants=True,
         note="assumed: Event.triggered reads the flag set by succeed/fail/trigger")

# ---------------------------------------------------------------------------------------------- Container
model("ContainerPut", module="usim.py.resources.container", fields={"amount": REAL})
model("ContainerGet", module="usim.py.resources.container", fields={"amount": REAL})
model("Container", module="usim.py.resources.container", fields={"_level": REAL},
      ghost={"init": REAL, "sum_in": REAL, "sum_out": REAL})

invariant("Container", "level_in_bounds", "0 <= self._level and self._level <= self._capacity", props=["C19"])
invariant("Container", "conservation", "self._level == self.init + self.sum_in - self.sum_out", props=["C19"])

contract("usim.py.resources.container.Container._do_put",
         params={"self": REF("Container"), "event": REF("ContainerPut")}, returns=BOOL,
         requires=["event.amount > 0", "not event.fired"],
         ensures=["result == (old(self._capacity - self._level) >= event.amount)",
                  "implies(result, self._level == old(self._level) + event.amount and event.fired)",
                  "implies(not result, self._level == old(self._level) and not event.fired)",
                  "self.sum_in == old(self.sum_in) + ite(result, event.amount, 0)"],
         ghost_exit=["self.sum_in = self.sum_in + ite(result, event.amount, 0)"],
         modifies=["Container._level@self", "Container.sum_in@self", "Event.fired@event", "Event.val@event", "Event._value@event"],
         allocates=False, props=["C19"])

contract("usim.py.resources.container.Container._do_get",
         params={"self": REF("Container"), "event": REF("ContainerGet")}, returns=BOOL,
         requires=["event.amount > 0", "not event.fired"],
         ensures=["result == (old(self._level) >= event.amount)",
                  "implies(result, self._level == old(self._level) - event.amount and event.fired)",
                  "implies(not result, self._level == old(self._level) and not event.fired)",
                  "self.sum_out == old(self.sum_out) + ite(result, event.amount, 0)"],
         ghost_exit=["self.sum_out = self.sum_out + ite(result, event.amount, 0)"],
         modifies=["Container._level@self", "Container.sum_out@self", "Event.fired@event", "Event.val@event", "Event._value@event"],
         allocates=False, props=["C19"])

contract("usim.py.resources.base.BaseResource.__init__",
         params={"self": REF("BaseResource"), "env": REF("Environment"), "capacity": REAL},
         ensures=["self._capacity == capacity", "self._env is env", "len(self.put_queue) == 0", "len(self.get_queue) == 0"],
         modifies=["BaseResource._env@self", "BaseResource._capacity@self", "BaseResource.put_queue@self", "BaseResource.get_queue@self"],
         no_invariants=True, props=["C19"])

contract("usim.py.resources.container.Container.__init__",
         params={"self": REF("Container"), "env": REF("Environment"), "capacity": REAL, "init": REAL},
         ensures=["self._capacity == capacity", "self._level == init", "len(self.put_queue) == 0", "len(self.get_queue) == 0",
                  "self.init == init", "self.sum_in == 0", "self.sum_out == 0"],
         raises={"ValueError": dict(when="capacity <= 0 or init < 0 or init > capacity")},
         ghost_exit=["self.init = init\nself.sum_in = 0\nself.sum_out = 0"],
         modifies=["BaseResource._env@self", "BaseResource._capacity@self", "BaseResource.put_queue@self", "BaseResource.get_queue@self",
                   "Container._level@self", "Container.init@self", "Container.sum_in@self", "Container.sum_out@self"],
         props=["C19"])

# ---------------------------------------------------------------------------------------------- Store (FIFO)
default_scope(["Store"])
model("StorePut", module="usim.py.resources.store", fields={"item": ANY})
model("StoreGet", module="usim.py.resources.store", fields={})
model("Store", module="usim.py.resources.store", fields={"_items": LIST(ANY)})
# capacities are reals in the model (float('inf') by default): for every real capacity the content stays below capacity + 1,
# which for a whole-number capacity (the documented use) is "never more items than capacity" (integer arithmetic; the
# mixed integer/real step itself is not put to the solver: z3 needed > 200 s for it)
invariant("Store", "within_capacity", "len(self._items) < self._capacity + 1", props=["C19"])

contract("usim.py.resources.store.Store.__init__",
         params={"self": REF("Store"), "env": REF("Environment"), "capacity": REAL},
         ensures=["self._capacity == capacity", "len(self._items) == 0", "len(self.put_queue) == 0", "len(self.get_queue) == 0"],
         raises={"ValueError": dict(when="capacity <= 0")},
         modifies=["BaseResource._env@self", "BaseResource._capacity@self", "BaseResource.put_queue@self", "BaseResource.get_queue@self",
                   "Store._items@self"],
         props=["C19"])

contract("usim.py.resources.store.Store._do_put",
         params={"self": REF("Store"), "event": REF("StorePut")}, returns=BOOL,
         requires=["not event.fired"],
         ensures=["result == (old(len(self._items)) < self._capacity)",
                  # the item goes to the END of the content, nothing else moves
                  "implies(result, self._items == old(self._items) + [event.item] and event.fired)",
                  "implies(not result, self._items == old(self._items) and not event.fired)"],
         modifies=["Store._items@self", "Event.fired@event", "Event.val@event", "Event._value@event"],
         allocates=False, props=["C19"])

contract("usim.py.resources.store.Store._do_get",
         params={"self": REF("Store"), "event": REF("StoreGet")}, returns=BOOL,
         requires=["not event.fired"],
         ensures=["result == (old(len(self._items)) > 0)",
                  # the OLDEST item is handed out, exactly once (it leaves the content), the rest keeps its order
                  "implies(result, event.val is old(self._items)[0] and self._items == old(self._items)[1:] and event.fired)",
                  "implies(not result, self._items == old(self._items) and not event.fired)"],
         modifies=["Store._items@self", "Event.fired@event", "Event.val@event", "Event._value@event"],
         props=["C19"])   # (the caught IndexError/ValueError is an allocated object)

# ---------------------------------------------------------------------------------------------- Resource (usage slots)
default_scope(["Resource"])
model("Request", module="usim.py.resources.resource", fields={"usage_since": ANY})
model("Release", module="usim.py.resources.resource", fields={"request": REF("Request")})
model("Resource", module="usim.py.resources.resource", fields={"users": LIST(REF("Request"))})
invariant("Resource", "users_within_capacity", "len(self.users) < self._capacity + 1", props=["C19"])

contract("usim.py.resources.resource.Resource.__init__",
         params={"self": REF("Resource"), "env": REF("Environment"), "capacity": REAL},
         ensures=["self._capacity == capacity", "len(self.users) == 0", "len(self.put_queue) == 0", "len(self.get_queue) == 0"],
         raises={"ValueError": dict(when="capacity <= 0")},
         modifies=["BaseResource._env@self", "BaseResource._capacity@self", "BaseResource.put_queue@self", "BaseResource.get_queue@self",
                   "Resource.users@self"],
         props=["C19"])

contract("usim.py.resources.resource.Resource._do_put",
         params={"self": REF("Resource"), "event": REF("Request")}, returns=BOOL,
         requires=["not event.fired"],
         ensures=["result == (old(len(self.users)) < self._capacity)",
                  "implies(result, self.users == old(self.users) + [event] and event.fired)",
                  "implies(not result, self.users == old(self.users) and not event.fired)"],
         modifies=["Resource.users@self", "Request.usage_since@event", "Event.fired@event", "Event.val@event", "Event._value@event"],
         allocates=False, props=["C19"])

IN_USERS = "exists(int, lambda i: 0 <= i and i < len(old(self.users)) and old(self.users)[i] is event.request)"
contract("usim.py.resources.resource.Resource._do_get",
         params={"self": REF("Resource"), "event": REF("Release")}, returns=BOOL,
         requires=["not event.fired"],
         ensures=["result", "event.fired",
                  # releasing is idempotent: a request that holds no slot changes nothing ...
                  "implies(not %s, self.users == old(self.users))" % IN_USERS,
                  # ... and one that holds a slot gives back exactly that slot; the other users keep their order
                  "implies(%s, exists(int, lambda k: 0 <= k and k < len(old(self.users)) and old(self.users)[k] is event.request "
                  "and forall(int, lambda j: implies(0 <= j and j < k, old(self.users)[j] is not event.request)) "
                  "and self.users == old(self.users)[:k] + old(self.users)[k + 1:]))" % IN_USERS],
         modifies=["Resource.users@self", "Event.fired@event", "Event.val@event", "Event._value@event"],
         props=["C19"])   # (the caught IndexError/ValueError is an allocated object)

# ---------------------------------------------------------------------------------------------- the queues (all resource types)
# "grantable now" per resource type, as the statement of C19 has it (closed world over the repository's resource classes)
spec_function("can_put", ["r", "e"],
              "ite(isinstance(r, Container), cast(r, Container)._capacity - cast(r, Container)._level >= cast(e, ContainerPut).amount, "
              "ite(isinstance(r, Store), len(cast(r, Store)._items) < r._capacity, len(cast(r, Resource).users) < r._capacity))")
spec_function("can_get", ["r", "e"],
              "ite(isinstance(r, Container), cast(r, Container)._level >= cast(e, ContainerGet).amount, "
              "ite(isinstance(r, Store), len(cast(r, Store)._items) > 0, True))")

def NOT_FIRED(q):
    return "forall(int, lambda i: implies(0 <= i and i < len(self.%s), not self.%s[i].fired))" % (q, q)


def DISTINCT(q):
    return ("forall(int, lambda i: forall(int, lambda j: implies(0 <= i and i < j and j < len(self.%s), self.%s[i] is not self.%s[j])))"
            % (q, q, q))


def BELONG(q):
    return "forall(int, lambda i: implies(0 <= i and i < len(self.%s), self.%s[i].resource is self))" % (q, q)


def TYPED(q):
    k = "Put" if q == "put_queue" else "Get"
    return ("forall(int, lambda i: implies(0 <= i and i < len(self.%s), "
            "implies(isinstance(self, Container), isinstance(self.%s[i], Container%s) and cast(self.%s[i], Container%s).amount > 0) and "
            "implies(isinstance(self, Store), isinstance(self.%s[i], Store%s)) and "
            "implies(isinstance(self, Resource), isinstance(self.%s[i], %s))))"
            % (q, q, k, q, k, q, k, q, "Request" if k == "Put" else "Release"))


invariant("BaseResource", "pending_puts_belong", BELONG("put_queue"), props=["C19"])
invariant("BaseResource", "pending_gets_belong", BELONG("get_queue"), props=["C19"])
invariant("BaseResource", "pending_puts_typed", TYPED("put_queue"), props=["C19"])
invariant("BaseResource", "pending_gets_typed", TYPED("get_queue"), props=["C19"])
# "a queued request has not been granted" is a protocol fact of each resource that is passed explicitly (requires/ensures of
# the queue operations below) instead of being a class invariant: as an invariant it would have to be re-proved for every
# OTHER resource whenever some event fires, and z3 does not get through that frame argument within the budget
invariant("BaseResource", "pending_puts_distinct", DISTINCT("put_queue"), props=["C19"])
invariant("BaseResource", "pending_gets_distinct", DISTINCT("get_queue"), props=["C19"])
KINDS = ("(isinstance(self, Container) or (isinstance(self, Store) and not isinstance(self, PriorityStore) and not isinstance(self, FilterStore)) "
         "or (isinstance(self, Resource) and not isinstance(self, PreemptiveResource)))")
CONTENT_SCOPE = ["Container", "Store", "Resource"]      # hold at every step of the serving loop
ALL_SCOPE = ["BaseResource"] + CONTENT_SCOPE


def _trigger(q, can, other, kind):
    n = "(len(old(self.%s)) - len(self.%s))" % (q, q)
    return dict(
        # the queue holds distinct, not yet granted requests (class invariant of BaseResource, which the callers have in scope;
        # it does NOT hold inside the serving loop, where granted requests are still queued, so it is passed explicitly)
        requires=[KINDS, NOT_FIRED(q), DISTINCT(q), BELONG(q), TYPED(q)],
        ensures=[
            # exactly a PREFIX of the queue (in queue order) was granted and left the queue; the rest is still pending, in order
            "len(self.%s) <= len(old(self.%s))" % (q, q),
            "self.%s == old(self.%s)[%s:]" % (q, q, n),
            "forall(int, lambda i: implies(0 <= i and i < %s, old(self.%s)[i].fired))" % (n, q),
            NOT_FIRED(q), DISTINCT(q), BELONG(q), TYPED(q),
            # nothing grantable is left waiting at the head
            "implies(len(self.%s) > 0, not %s(self, self.%s[0]))" % (q, can, q),
            "self.%s == old(self.%s)" % (other, other),
            # only requests of this kind (puts resp. gets) are touched, and granted stays granted
            "forall(Event, lambda e: implies(not fresh_obj(e) and not (isinstance(e, %s) and cast(e, BaseRequest).resource is self), e.fired == old(e.fired)))" % kind,
            ],
        loop_invariants={"takewhile#1": [
            "self.%s == old(self.%s)" % (q, q), "self.%s == old(self.%s)" % (other, other),
            "len(_res) == _i",
            "forall(int, lambda j: implies(0 <= j and j < _i, _iter[j].fired))",
            "forall(int, lambda j: implies(_i <= j and j < len(_iter), not _iter[j].fired))",
            "forall(Event, lambda e: implies(not fresh_obj(e) and not (isinstance(e, %s) and cast(e, BaseRequest).resource is self), e.fired == old(e.fired)))" % kind,
                        'unchanged_except("Container._level", self)', 'unchanged_except("Container.sum_in", self)',
            'unchanged_except("Container.sum_out", self)', 'unchanged_except("Store._items", self)',
            'unchanged_except("Resource.users", self)']},
        loop_consistent=["takewhile#1"],
        modifies=["BaseResource.%s@self" % q, "Container._level@self", "Container.sum_in@self", "Container.sum_out@self", "Store._items@self",
                  "Resource.users@self", "Request.usage_since", "Event.fired", "Event.val", "Event._value"],
        inv_scope=CONTENT_SCOPE, props=["C19"])

contract("usim.py.resources.base.BaseResource._trigger_put",
         params={"self": REF("BaseResource"), "get_event": OPT(REF("Get"))}, **_trigger("put_queue", "can_put", "get_queue", "Put"))
contract("usim.py.resources.base.BaseResource._trigger_get",
         params={"self": REF("BaseResource"), "put_event": OPT(REF("Put"))}, **_trigger("get_queue", "can_get", "put_queue", "Get"))


# ---------------------------------------------------------------------------------------------- requests: creation and cancellation
contract("usim.py.events.Event.__init__", assumed=True,
         params={"self": REF("Event"), "env": REF("Environment")},
         ensures=["not self.fired", "self.env is env", "len(self.callbacks) == 0"],
         modifies=["Event.fired@self", "Event.val@self", "Event._value@self", "Event.env@self", "Event.callbacks@self", "Event.defused@self"],
         no_invariants=True,
         note="assumed: a new Event is not triggered and has no callbacks (usim.py.events is not under contract)")

contract("usim.py.resources.base.BaseRequest.__init__",
         params={"self": REF("BaseRequest"), "resource": REF("BaseResource")},
         ensures=["not self.fired", "self.resource is resource", "len(self.callbacks) == 0"],
         modifies=["Event.fired@self", "Event.val@self", "Event._value@self", "Event.env@self", "Event.callbacks@self", "Event.defused@self",
                   "BaseRequest.resource@self", "BaseRequest.proc@self"],
         no_invariants=True, props=["C19"])


def RKINDS(r):
    return KINDS.replace("self", r)


def _request_init(q, other, trig, kind, req_kinds, inverse):
    n = "(len(old(resource.%s)) + 1 - len(resource.%s))" % (q, q)
    R = lambda t: t.replace("self.", "resource.")      # noqa: E731
    return dict(
        requires=[RKINDS("resource"), R(NOT_FIRED(q)), R(NOT_FIRED(other))] + req_kinds,
        ensures=[
            R(NOT_FIRED(q)), R(NOT_FIRED(other)),
            # the new request joins the END of the queue; then exactly a prefix of the queue is granted (request order) ...
            "len(resource.%s) <= len(old(resource.%s)) + 1" % (q, q),
            "resource.%s == (old(resource.%s) + [self])[%s:]" % (q, q, n),
            "forall(int, lambda i: implies(0 <= i and i < %s and i < len(old(resource.%s)), old(resource.%s)[i].fired))" % (n, q, q),
            "self.fired == (len(resource.%s) == 0 or resource.%s[len(resource.%s) - 1] is not self)" % (q, q, q),
            # ... and no grantable request is left at the head (granted within the step)
            "implies(len(resource.%s) > 0, not %s(resource, resource.%s[0]))" % (q, "can_put" if kind == "Put" else "can_get", q),
            "resource.%s == old(resource.%s)" % (other, other),
            "self.resource is resource",
            # the inverse trigger runs when this request is processed, whenever that is (a completed put can serve a waiting get)
            "len(self.callbacks) == 1 and self.callbacks[0] is bound_method('%s', resource)" % inverse],
        modifies=["Event.fired", "Event.val", "Event._value", "Event.env@self", "Event.callbacks@self", "Event.defused@self",
                  "BaseRequest.resource@self", "BaseRequest.proc@self", "BaseResource.%s@resource" % q,
                  "Container._level@resource", "Container.sum_in@resource", "Container.sum_out@resource", "Store._items@resource",
                  "Resource.users@resource", "Request.usage_since"],
        inv_scope=ALL_SCOPE, props=["C19"])


contract("usim.py.resources.base.Put.__init__",
         params={"self": REF("Put"), "resource": REF("BaseResource")},
         **_request_init("put_queue", "get_queue", "_trigger_put", "Put", [
             "implies(isinstance(resource, Container), isinstance(self, ContainerPut) and cast(self, ContainerPut).amount > 0)",
             "implies(isinstance(resource, Store), isinstance(self, StorePut))",
             "implies(isinstance(resource, Resource), isinstance(self, Request))"], "_trigger_get"))
contract("usim.py.resources.base.Get.__init__",
         params={"self": REF("Get"), "resource": REF("BaseResource")},
         **_request_init("get_queue", "put_queue", "_trigger_get", "Get", [
             "implies(isinstance(resource, Container), isinstance(self, ContainerGet) and cast(self, ContainerGet).amount > 0)",
             "implies(isinstance(resource, Store), isinstance(self, StoreGet))",
             "implies(isinstance(resource, Resource), isinstance(self, Release))"], "_trigger_put"))


def _cancel(q):
    inq = "exists(int, lambda i: 0 <= i and i < len(old(self.resource.%s)) and old(self.resource.%s)[i] is self)" % (q, q)
    return dict(
        requires=[],
        ensures=[
            # cancelling is idempotent: a granted request, or one that is not queued (any more), changes nothing ...
            "implies(old(self.fired) or not %s, self.resource.%s == old(self.resource.%s))" % (inq, q, q),
            # ... a pending one leaves the queue, everything else keeps its place
            "implies(not old(self.fired) and %s, exists(int, lambda k: 0 <= k and k < len(old(self.resource.%s)) "
            "and old(self.resource.%s)[k] is self and forall(int, lambda j: implies(0 <= j and j < k, old(self.resource.%s)[j] is not self)) "
            "and self.resource.%s == old(self.resource.%s)[:k] + old(self.resource.%s)[k + 1:]))" % (inq, q, q, q, q, q, q)],
        modifies=["BaseResource.%s@self.resource" % q], no_invariants=True, props=["C19"])


contract("usim.py.resources.base.Put.cancel", params={"self": REF("Put")}, **_cancel("put_queue"))
contract("usim.py.resources.base.Get.cancel", params={"self": REF("Get")}, **_cancel("get_queue"))


# ---------------------------------------------------------------------------------------------- typed request constructors
# (the call sites at which the typed-queue preconditions of Put/Get.__init__ are checked)
import re as _re


def _renamed(d, name, extra_modifies, extra_ensures=(), raises=None):
    ren = lambda t: _re.sub(r"(?<![\.\w])resource\b", name, t)      # noqa: E731
    out = dict(d)
    out["requires"] = [ren(x) for x in d["requires"] if "isinstance(self" not in x]
    out["ensures"] = [ren(x) for x in d["ensures"]] + list(extra_ensures)
    out["modifies"] = [ren(x) for x in d["modifies"]] + list(extra_modifies)
    if raises:
        out["raises"] = raises
    return out


_PUT = _request_init("put_queue", "get_queue", "_trigger_put", "Put", [], "_trigger_get")
_GET = _request_init("get_queue", "put_queue", "_trigger_get", "Get", [], "_trigger_put")

contract("usim.py.resources.container.ContainerPut.__init__",
         params={"self": REF("ContainerPut"), "container": REF("Container"), "amount": REAL},
         **_renamed(_PUT, "container", ["ContainerPut.amount@self"], ["self.amount == amount"],
                    raises={"ValueError": dict(when="amount <= 0")}))
contract("usim.py.resources.container.ContainerGet.__init__",
         params={"self": REF("ContainerGet"), "container": REF("Container"), "amount": REAL},
         **_renamed(_GET, "container", ["ContainerGet.amount@self"], ["self.amount == amount"],
                    raises={"ValueError": dict(when="amount <= 0")}))
contract("usim.py.resources.store.StorePut.__init__",
         params={"self": REF("StorePut"), "store": REF("Store"), "item": ANY},
         **_renamed(dict(_PUT, requires=_PUT["requires"] + ["not isinstance(store, PriorityStore) and not isinstance(store, FilterStore)"]),
                    "store", ["StorePut.item@self"], ["self.item is item"]))
contract("usim.py.resources.resource.Release.__init__",
         params={"self": REF("Release"), "resource": REF("Resource"), "request": REF("Request")},
         **_renamed(dict(_GET, requires=_GET["requires"] + ["not isinstance(resource, PreemptiveResource)"]),
                    "resource", ["Release.request@self"], ["self.request is request"]))


# ---------------------------------------------------------------------------------------------- the public operations
def _api(d, extra_requires=(), extra_ensures=(), raises=None):
    def ren(t):
        t = _re.sub(r"(?<![\.\w])self\b", "result", t)
        return _re.sub(r"(?<![\.\w])resource\b", "self", t)
    out = dict(d)
    out["requires"] = [ren(x) for x in d["requires"] if "isinstance(self" not in x] + list(extra_requires)
    out["ensures"] = ["fresh_obj(result)"] + [ren(x) for x in d["ensures"]] + list(extra_ensures)
    out["modifies"] = [m for m in (ren(x) for x in d["modifies"]) if "@result" not in m] + \
        ["Event.env", "Event.callbacks", "Event.defused", "BaseRequest.resource", "BaseRequest.proc"]
    if raises:
        out["raises"] = raises
    return out


contract("usim.py.resources.container.Container.put",
         params={"self": REF("Container"), "amount": REAL}, returns=REF("ContainerPut"),
         **_api(_PUT, [], ["result.amount == amount"], raises={"ValueError": dict(when="amount <= 0")}))
contract("usim.py.resources.container.Container.get",
         params={"self": REF("Container"), "amount": REAL}, returns=REF("ContainerGet"),
         **_api(_GET, [], ["result.amount == amount"], raises={"ValueError": dict(when="amount <= 0")}))
_PLAIN_STORE = "not isinstance(self, PriorityStore) and not isinstance(self, FilterStore)"
contract("usim.py.resources.store.Store.put",
         params={"self": REF("Store"), "item": ANY}, returns=REF("StorePut"),
         **_api(_PUT, [_PLAIN_STORE], ["result.item is item"]))
contract("usim.py.resources.store.Store.get",
         params={"self": REF("Store")}, returns=REF("StoreGet"), **_api(_GET, [_PLAIN_STORE]))
_PLAIN_RES = "not isinstance(self, PreemptiveResource)"
contract("usim.py.resources.resource.Resource.request",
         params={"self": REF("Resource")}, returns=REF("Request"), **_api(_PUT, [_PLAIN_RES]))
contract("usim.py.resources.resource.Resource.release",
         params={"self": REF("Resource"), "request": REF("Request")}, returns=REF("Release"),
         **_api(_GET, [_PLAIN_RES], ["result.request is request"]))


# ---------------------------------------------------------------------------------------------- leaving a `with request:` block
contract("usim.py.resources.base.BaseRequest.__exit__",
         params={"self": REF("BaseRequest"), "exc_type": ANY, "exc_value": ANY, "traceback": ANY},
         requires=["isinstance(self, Put) or isinstance(self, Get)"],
         ensures=[
             # a granted request keeps what it holds, a pending one is withdrawn: afterwards it is queued nowhere ...
             "implies(old(self.fired), self.resource.put_queue == old(self.resource.put_queue) and self.resource.get_queue == old(self.resource.get_queue))",
             "implies(isinstance(self, Put), self.resource.get_queue == old(self.resource.get_queue) and len(self.resource.put_queue) >= len(old(self.resource.put_queue)) - 1)",
             "implies(isinstance(self, Get), self.resource.put_queue == old(self.resource.put_queue) and len(self.resource.get_queue) >= len(old(self.resource.get_queue)) - 1)",
             # ... and the exception of the block, if any, is not swallowed
             "result is None"],
         modifies=["BaseResource.put_queue@self.resource", "BaseResource.get_queue@self.resource"], no_invariants=True, props=["C19"])

# observers used by programs (and by the statement of C19) to look at the content
contract("usim.py.resources.container.Container.level", pure=True, params={"self": REF("Container")}, returns=REAL,
         ensures=["result == self._level", "0 <= result and result <= self._capacity"], modifies=[], inv_scope=["Container"], props=["C19"])
contract("usim.py.resources.base.BaseResource.capacity", pure=True, params={"self": REF("BaseResource")}, returns=REAL,
         ensures=["result == self._capacity"], modifies=[], no_invariants=True, props=["C19"])
contract("usim.py.resources.resource.Resource.count", pure=True, params={"self": REF("Resource")}, returns=INT,
         ensures=["result == len(self.users)", "result < self._capacity + 1"], modifies=[], inv_scope=["Resource"], props=["C19"])
