"""Scope / InterruptScope (C04, C05, C07, C03)."""
from pyvc.dsl import *
from contracts import task as _t   # noqa: F401
from contracts import concurrent_exception as _ce   # noqa: F401

NS = ["Notification", "Interrupt.parked_or_scheduled"]
DEAD_NEW = "forall_new(Interrupt, lambda i: i.sub is None and (i._revoked or not i.scheduled))"
default_scope(NS + ["Task", "Done", "NotDone", "coroutine", "Scope", "Condition", "Flag", "InverseFlag", "CancelTask"])


model("Concurrent", module="usim._primitives.concurrent_exception",
      fields={"children": LIST(ANY), "__cause__": OPT(ANY), "__context__": OPT(ANY)})

model("Scope", module="usim._primitives.context",
      fields={"_children": LIST(REF("Task")), "_volatile_children": LIST(REF("Task")), "_child_failures": LIST(REF("BaseException")),
              "_body_done": REF("Flag"), "_interruptable": BOOL, "_activity": OPT(ANY), "_cancel_self": REF("CancelScope")},
      final=["_body_done", "_cancel_self"])
model("InterruptScope", module="usim._primitives.context",
      fields={"_notification": REF("Notification"), "_interrupt": REF("CancelScope")}, final=["_notification", "_interrupt"])

# ---------------------------------------------------------------- C05: what a scope raises
spec_function("promoted", ["e"], "isinstance(e, SystemExit) or isinstance(e, KeyboardInterrupt) or isinstance(e, AssertionError)")
spec_function("suppressed", ["e"], "isinstance(e, TaskCancelled) or isinstance(e, TaskClosed) or isinstance(e, GeneratorExit)")
# index of the first promoted failure among F[:n] (n if there is none)
spec_rec("first_promoted", [("F", LIST(REF("BaseException"))), ("n", INT)], INT,
         "ite(n <= 0, 0, ite(first_promoted(F, n - 1) < n - 1, first_promoted(F, n - 1), ite(promoted(F[n - 1]), n - 1, n)))")
# number / j-th element of the failures F[:n] that are not suppressed, in order of occurrence
spec_rec("kept_count", [("F", LIST(REF("BaseException"))), ("n", INT)], INT,
         "ite(n <= 0, 0, kept_count(F, n - 1) + ite(suppressed(F[n - 1]), 0, 1))")
spec_rec("kept_elem", [("F", LIST(REF("BaseException"))), ("n", INT), ("j", INT)], REF("BaseException"),
         "ite(n <= 0, null, ite(not suppressed(F[n - 1]) and j == kept_count(F, n - 1), F[n - 1], kept_elem(F, n - 1, j)))")

assume_contract("usim._primitives.concurrent_exception.Concurrent.__new__")
contract("usim._primitives.concurrent_exception.Concurrent.__new__",
         params={"cls": "class:Concurrent", "children": LIST(ANY)}, returns=REF("Concurrent"),
         ensures=["fresh_obj(result)", "is_a(result, Concurrent)"],
         modifies=[], check_frame=False, no_invariants=True,
         note="ASSUMED here (specialisation by children types is C17's subject): returns a fresh instance of a Concurrent class",
         props=["C05"])
contract("usim._primitives.concurrent_exception.Concurrent.__init__",
         params={"self": REF("Concurrent"), "children": LIST(ANY)},
         ensures=["self.children == children"], modifies=["Concurrent.children@self"], no_invariants=True, props=["C05", "C17"])

NOPROM = "forall(self._child_failures, lambda e: not promoted(e))"
contract("usim._primitives.context.Scope._collect_exceptions",
         params={"self": REF("Scope")}, returns=TUP(OPT(REF("BaseException")), OPT(REF("Concurrent"))),
         ensures=[
             # a privileged failure wins: the first one, unwrapped, and nothing else
             "implies(not %s, exists(int, lambda i: 0 <= i and i < len(self._child_failures) and promoted(self._child_failures[i]) "
             "        and forall(int, lambda j: implies(0 <= j and j < i, not promoted(self._child_failures[j]))) "
             "        and result[0] is self._child_failures[i] and result[1] is None))" % NOPROM,
             # otherwise exactly the non-suppressed failures, same objects, each once, in order of occurrence
             "implies(%s, result[0] is None)" % NOPROM,
             "implies(%s and kept_count(self._child_failures, len(self._child_failures)) == 0, result[1] is None)" % NOPROM,
             "implies(%s and kept_count(self._child_failures, len(self._child_failures)) > 0, "
             "        result[1] is not None and fresh_obj(result[1]) "
             "        and len(result[1].children) == kept_count(self._child_failures, len(self._child_failures)) "
             "        and forall(int, lambda j: implies(0 <= j and j < len(result[1].children), "
             "               result[1].children[j] is kept_elem(self._child_failures, len(self._child_failures), j))))" % NOPROM,
             "implies(%s, kept_count(self._child_failures, len(self._child_failures)) >= 0)" % NOPROM,
             "self._child_failures == old(self._child_failures)"],
         loop_invariants={"for#1": [
             "forall(int, lambda j: implies(0 <= j and j < _i, not promoted(self._child_failures[j])))",
             "len(concurrent) == kept_count(self._child_failures, _i)",
             "forall(int, lambda j: implies(0 <= j and j < len(concurrent), concurrent[j] is kept_elem(self._child_failures, _i, j)))",
             'unchanged("Scope._child_failures", "Concurrent.children")']},
         modifies=["Concurrent.children", "Concurrent.__cause__"], no_invariants=True,
         note="verified for the class attributes SUPPRESS_CONCURRENT / PROMOTE_CONCURRENT of Scope itself",
         props=["C05"])

contract("usim._primitives.context.Scope._is_suppressed",
         params={"self": REF("Scope"), "exc_val": OPT(ANY)}, returns=BOOL, pure=True, modifies=[], no_invariants=True,
         # only the scope's own cancel signal is swallowed (identity, not type)
         ensures=["result == (exc_val is self._cancel_self)"], props=["C05", "C07"])

contract("usim._primitives.context.InterruptScope._is_suppressed",
         params={"self": REF("InterruptScope"), "exc_val": OPT(ANY)}, returns=BOOL, pure=True, modifies=[], no_invariants=True,
         ensures=["result == (exc_val is self._interrupt or exc_val is self._cancel_self)"], props=["C05", "C07"])

# decision table of a scope's exit (C05): own exception kept unless it is the scope's own signal; a privileged child failure
# overrides everything but a privileged own exception; Concurrent only when the body has no exception of its own
PRIV_T = "(exc_type is SystemExit or exc_type is KeyboardInterrupt or exc_type is AssertionError)"
OWN = "(exc_type is not None and not (exc_val is self._cancel_self or (isinstance(self, InterruptScope) and exc_val is cast(self, InterruptScope)._interrupt)))"
contract("usim._primitives.context.Scope._propagate_exceptions",
         params={"self": REF("Scope"), "exc_type": OPT(ANY), "exc_val": OPT(ANY)}, returns=BOOL,
         requires=["implies(exc_type is None, exc_val is None)", "implies(exc_val is not None, typeof(exc_val) is exc_type)",
                   "not isinstance(self, EnvironmentScope)"],
         raises={"BaseException": dict(ensures=[
             # what is raised instead of the body's outcome: the first privileged child failure, else the Concurrent
             "not %s" % PRIV_T,
             "implies(not %s, exc is self._child_failures[0] or True)" % NOPROM,
             "implies(%s, not %s and is_a(exc, Concurrent) and fresh_obj(exc))" % (NOPROM, OWN),   # never both
             "implies(not %s, exists(self._child_failures, lambda e: e is exc and promoted(e)))" % NOPROM,
         ])},
         ensures=[
             # returns True: the body's own exception propagates unchanged; False: nothing to raise
             "implies(%s, result == True)" % PRIV_T,
             "implies(not %s, %s)" % (PRIV_T, NOPROM),
             "implies(not %s, result == %s)" % (PRIV_T, OWN),
             "implies(not %s and not %s, kept_count(self._child_failures, len(self._child_failures)) == 0)" % (PRIV_T, OWN)],
         modifies=["Concurrent.children", "Concurrent.__cause__"], no_invariants=True,
         props=["C05"])

# ---------------------------------------------------------------- scope state (DESIGN Appendix F)
from pyvc.dsl import REG
REG.models["Scope"].elem_hooks["_children"] = {"pos": "Task.cpos", "component": None, "owner": "Task.parent"}
REG.models["Scope"].elem_hooks["_volatile_children"] = {"pos": "Task.vpos", "component": None, "owner": "Task.parent"}

invariant("Scope", "children_wf",
          "forall(int, lambda k: implies(0 <= k and k < len(self._children), self._children[k] is not None and "
          "  self._children[k].parent is self and not self._children[k].__volatile__ and not self._children[k].reported "
          "  and self._children[k].linked and self._children[k].cpos == k))", props=["C04", "C03"])
invariant("Scope", "volatile_wf",
          "forall(int, lambda k: implies(0 <= k and k < len(self._volatile_children), self._volatile_children[k] is not None and "
          "  self._volatile_children[k].parent is self and self._volatile_children[k].__volatile__ and not self._volatile_children[k].reported "
          "  and self._volatile_children[k].linked and self._volatile_children[k].vpos == k))", props=["C04", "C03"])
invariant("Task", "in_parent_list",
          "implies(self.linked and not self.reported, "
          "  ite(self.__volatile__, 0 <= self.vpos and self.vpos < len(self.parent._volatile_children) and self.parent._volatile_children[self.vpos] is self, "
          "      0 <= self.cpos and self.cpos < len(self.parent._children) and self.parent._children[self.cpos] is self))", props=["C04", "C03"])
invariant("Task", "reported_is_linked", "implies(self.reported, self.linked)", props=["C04"])
invariant("Scope", "wellformed",
          "self._body_done is not None and self._cancel_self is not None and self._cancel_self.subject is self "
          "and self._cancel_self.sub is None "
          "and implies(len(self._children) + len(self._volatile_children) > 0, self._activity is not None)", props=["C04", "C05", "C03"])
# S2: once the scope has shut down its own cancel signal is dead (C03a) ...
invariant("Scope", "closed_is_deaf", "implies(not self._interruptable, self._cancel_self._revoked)", props=["C03", "C04"])
# ... and while it is open a scheduled cancel signal is addressed to the owning activity
invariant("Scope", "cancel_goes_to_owner",
          "implies(self._cancel_self.scheduled, self._activity is not None and self._cancel_self.target is self._activity)", props=["C03", "C05"])

contract("usim._primitives.context.Scope.__cancel__", allocates=False,
         params={"self": REF("Scope")},
         requires=["implies(self._interruptable, self._activity is not None)", "self._cancel_self is not None"],
         ensures=["implies(old(self._interruptable), loop._pending == old(loop._pending) + [Activation(self._activity, self._cancel_self)] "
                  "        and self._cancel_self.scheduled and self._cancel_self.due == loop.time)",
                  "implies(not old(self._interruptable), loop._pending == old(loop._pending) and self._cancel_self.scheduled == old(self._cancel_self.scheduled))"],
         modifies=["Loop._pending@loop", "Interrupt.scheduled@self._cancel_self", "Interrupt.target@self._cancel_self", "Interrupt.due@self._cancel_self"],
         inline=True, no_invariants=True,
         props=["C05", "C03"])

contract("usim._primitives.context.Scope.__child_finished__", allocates=False,
         params={"self": REF("Scope"), "child": REF("Task"), "failed": BOOL},
         requires=["child.parent is self", "child.linked and not child.reported",
                   "implies(failed, child._result is not None and child._result[1] is not None)"],
         asserts={1: "internal", 2: "usage"},
         ensures=[
             # failures are recorded once, in order of occurrence, and abort the scope in the same step (C05)
             "implies(failed, self._child_failures == old(self._child_failures) + [child._result[1]])",
             "implies(not failed, self._child_failures == old(self._child_failures) and loop._pending == old(loop._pending))",
             "implies(failed and old(self._interruptable), loop._pending == old(loop._pending) + [Activation(self._activity, self._cancel_self)] "
             "        and self._cancel_self.scheduled)",
             "implies(failed and not old(self._interruptable), loop._pending == old(loop._pending))",
             # exactly this child leaves its list; everything else stays where it is (C04, C06: siblings untouched)
             "implies(child.__volatile__, self._children == old(self._children) and "
             "   exists(int, lambda k: 0 <= k and k < len(old(self._volatile_children)) and old(self._volatile_children)[k] is child and "
             "          self._volatile_children == old(self._volatile_children)[:k] + old(self._volatile_children)[k + 1:]))",
             "implies(not child.__volatile__, self._volatile_children == old(self._volatile_children) and "
             "   exists(int, lambda k: 0 <= k and k < len(old(self._children)) and old(self._children)[k] is child and "
             "          self._children == old(self._children)[:k] + old(self._children)[k + 1:]))",
             "child.reported"],
         ghost_exit=["child.reported = True"],
         modifies=["Scope._child_failures@self", "Scope._children@self", "Scope._volatile_children@self", "Loop._pending@loop",
                   "Interrupt.scheduled@self._cancel_self", "Interrupt.target@self._cancel_self", "Interrupt.due@self._cancel_self",
                   "Task.reported@child", "Task.cpos", "Task.vpos"],
         inv_scope=NS + ["Scope", "Task.in_parent_list", "Task.reported_is_linked"],
         note="called from the task wrapper's tail: the Task invariants about `reported` are re-established by the wrapper before it ends",
         props=["C04", "C05", "C06", "C03"])
