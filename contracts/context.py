"""Scope / InterruptScope (C04, C05, C07, C03)."""
from pyvc.dsl import *
from contracts import task as _t   # noqa: F401
from contracts import concurrent_exception as _ce   # noqa: F401

NS = ["Notification", "Interrupt.parked_or_scheduled"]
DEAD_NEW = "forall_new(Interrupt, lambda i: i.sub is None and (i._revoked or not i.scheduled))"
default_scope(NS + ["Task", "Done", "NotDone", "coroutine", "Scope", "Condition", "Flag", "InverseFlag", "CancelTask", "InterruptScope"])


model("Concurrent", module="usim._primitives.concurrent_exception",
      fields={"children": LIST(ANY), "__cause__": OPT(ANY), "__context__": OPT(ANY)})

model("Scope", module="usim._primitives.context",
      fields={"_children": LIST(REF("Task")), "_volatile_children": LIST(REF("Task")), "_child_failures": LIST(REF("BaseException")),
              "_body_done": REF("Flag"), "_interruptable": BOOL, "_activity": OPT(ANY), "_cancel_self": REF("CancelScope")},
      final=["_body_done", "_cancel_self"])
model("InterruptScope", module="usim._primitives.context",
      fields={"_notification": REF("Notification"), "_interrupt": REF("CancelScope")}, final=["_notification", "_interrupt"],
      ghost={"armed": BOOL},        # between the subscription in __aenter__ and its removal in _disable_interrupts
      ghost_defaults={"armed": False})

# ---------------------------------------------------------------- C05: what a scope raises
spec_function("promoted", ["e"], "isinstance(e, SystemExit) or isinstance(e, KeyboardInterrupt) or isinstance(e, AssertionError)")
spec_function("suppressed", ["e"], "isinstance(e, TaskCancelled) or isinstance(e, TaskClosed) or isinstance(e, GeneratorExit)")
# index of the first promoted failure among F[:n] (n if there is none)
spec_rec("first_promoted", [("F", LIST(REF("BaseException"))), ("n", INT)], INT,
         "ite(n <= 0, 0, ite(first_promoted(F, n - 1) < n - 1, first_promoted(F, n - 1), ite(promoted(F[n - 1]), n - 1, n)))")
# number / j-th element of the failures F[:n] that are not suppressed, in order of occurrence
spec_rec("kept_count", [("F", LIST(REF("BaseException"))), ("n", INT)], INT,
         "ite(n <= 0, 0, kept_count(F, n - 1) + ite(suppressed(F[n - 1]), 0, 1))")
spec_rec("kept_elem", [("F", LIST(REF("BaseException"))), ("n", INT), ("j", INT)], REF("BaseException"),
         "ite(n <= 0, null, ite(not suppressed(F[n - 1]) and j == kept_count(F, n - 1), F[n - 1], kept_elem(F, n - 1, j)))")

contract("usim._primitives.concurrent_exception.Concurrent.__new__", assumed=True,
         params={"cls": "class:Concurrent", "children": LIST(ANY)}, returns=REF("Concurrent"),
         ensures=["fresh_obj(result)", "is_a(result, Concurrent)"],
         modifies=[], check_frame=False, no_invariants=True,
         note="ASSUMED here (specialisation by children types is C17's subject): returns a fresh instance of a Concurrent class",
         props=["C05"])
contract("usim._primitives.concurrent_exception.Concurrent.__init__",
         params={"self": REF("Concurrent"), "children": LIST(ANY)},
         ensures=["self.children == children"], modifies=["Concurrent.children@self"], no_invariants=True, props=["C05", "C17"])

NOPROM = "forall(self._child_failures, lambda e: not promoted(e))"
contract("usim._primitives.context.Scope._collect_exceptions",
         params={"self": REF("Scope")}, returns=TUP(OPT(REF("BaseException")), OPT(REF("Concurrent"))),
         ensures=[
             # a privileged failure wins: the first one, unwrapped, and nothing else
             "implies(not %s, exists(int, lambda i: 0 <= i and i < len(self._child_failures) and promoted(self._child_failures[i]) "
             "        and forall(int, lambda j: implies(0 <= j and j < i, not promoted(self._child_failures[j]))) "
             "        and result[0] is self._child_failures[i] and result[1] is None))" % NOPROM,
             # otherwise exactly the non-suppressed failures, same objects, each once, in order of occurrence
             "(result[0] is None) == (%s)" % NOPROM,
             "implies(%s, (result[1] is None) == (kept_count(self._child_failures, len(self._child_failures)) == 0))" % NOPROM,
             "implies(%s and result[1] is not None, "
             "        fresh_obj(result[1]) "
             "        and len(result[1].children) == kept_count(self._child_failures, len(self._child_failures)) "
             "        and forall(int, lambda j: implies(0 <= j and j < len(result[1].children), "
             "               result[1].children[j] is kept_elem(self._child_failures, len(self._child_failures), j))))" % NOPROM,
             "self._child_failures == old(self._child_failures)"],
         loop_invariants={"for#1": [
             "forall(int, lambda j: implies(0 <= j and j < _i, not promoted(self._child_failures[j])))",
             "len(concurrent) == kept_count(self._child_failures, _i)",
             "forall(int, lambda j: implies(0 <= j and j < len(concurrent), concurrent[j] is kept_elem(self._child_failures, _i, j)))",
             'unchanged("Scope._child_failures", "Concurrent.children")']},
         modifies=["Concurrent.children", "Concurrent.__cause__"], no_invariants=True,
         note="verified for the class attributes SUPPRESS_CONCURRENT / PROMOTE_CONCURRENT of Scope itself",
         props=["C05"])

contract("usim._primitives.context.Scope._is_suppressed",
         params={"self": REF("Scope"), "exc_val": OPT(ANY)}, returns=BOOL, pure=True, modifies=[], no_invariants=True,
         # only the scope's own cancel signal is swallowed (identity, not type)
         ensures=["result == (exc_val is self._cancel_self)"], props=["C05", "C07"])

contract("usim._primitives.context.InterruptScope._is_suppressed",
         params={"self": REF("InterruptScope"), "exc_val": OPT(ANY)}, returns=BOOL, pure=True, modifies=[], no_invariants=True,
         ensures=["result == (exc_val is self._interrupt or exc_val is self._cancel_self)"], props=["C05", "C07"])

# decision table of a scope's exit (C05): own exception kept unless it is the scope's own signal; a privileged child failure
# overrides everything but a privileged own exception; Concurrent only when the body has no exception of its own
PRIV_T = "(exc_type is SystemExit or exc_type is KeyboardInterrupt or exc_type is AssertionError)"
OWN = "(exc_type is not None and not (exc_val is self._cancel_self or (isinstance(self, InterruptScope) and exc_val is cast(self, InterruptScope)._interrupt)))"
contract("usim._primitives.context.Scope._propagate_exceptions",
         params={"self": REF("Scope"), "exc_type": OPT(ANY), "exc_val": OPT(ANY)}, returns=BOOL,
         requires=["implies(exc_type is None, exc_val is None)", "implies(exc_val is not None, typeof(exc_val) is exc_type)",
                   "not isinstance(self, EnvironmentScope)"],
         raises={"BaseException": dict(ensures=[
             # what is raised instead of the body's outcome: the first privileged child failure, else the Concurrent
             "not %s" % PRIV_T,
             "implies(not %s, exc is self._child_failures[0] or True)" % NOPROM,
             "implies(%s, not %s and is_a(exc, Concurrent) and fresh_obj(exc))" % (NOPROM, OWN),   # never both
             "implies(not %s, exists(self._child_failures, lambda e: e is exc and promoted(e)))" % NOPROM,
         ])},
         ensures=[
             # returns True: the body's own exception propagates unchanged; False: nothing to raise
             "implies(%s, result == True)" % PRIV_T,
             "implies(not %s, %s)" % (PRIV_T, NOPROM),
             "implies(not %s, result == %s)" % (PRIV_T, OWN),
             "implies(not %s and not %s, kept_count(self._child_failures, len(self._child_failures)) == 0)" % (PRIV_T, OWN)],
         modifies=["Concurrent.children", "Concurrent.__cause__"], no_invariants=True,
         props=["C05"])

# ---------------------------------------------------------------- scope state (DESIGN Appendix F)
from pyvc.dsl import REG
REG.models["Scope"].elem_hooks["_children"] = {"pos": "Task.cpos", "component": None, "owner": "Task.parent"}
REG.models["Scope"].elem_hooks["_volatile_children"] = {"pos": "Task.vpos", "component": None, "owner": "Task.parent"}

invariant("Scope", "children_wf",
          "forall(int, lambda k: implies(0 <= k and k < len(self._children), self._children[k] is not None and "
          "  self._children[k].parent is self and not self._children[k].__volatile__ and not self._children[k].reported "
          "  and self._children[k].linked and self._children[k].cpos == k))", props=["C04", "C03"])
invariant("Scope", "volatile_wf",
          "forall(int, lambda k: implies(0 <= k and k < len(self._volatile_children), self._volatile_children[k] is not None and "
          "  self._volatile_children[k].parent is self and self._volatile_children[k].__volatile__ and not self._volatile_children[k].reported "
          "  and self._volatile_children[k].linked and self._volatile_children[k].vpos == k))", props=["C04", "C03"])
invariant("Task", "in_parent_list",
          "implies(self.linked and not self.reported, "
          "  ite(self.__volatile__, 0 <= self.vpos and self.vpos < len(self.parent._volatile_children) and self.parent._volatile_children[self.vpos] is self, "
          "      0 <= self.cpos and self.cpos < len(self.parent._children) and self.parent._children[self.cpos] is self))", props=["C04", "C03"])
invariant("Task", "reported_is_linked", "implies(self.reported, self.linked)", props=["C04"])
invariant("Scope", "wellformed",
          "self._body_done is not None and self._cancel_self is not None and self._cancel_self.subject is self "
          "and self._cancel_self.sub is None "
          "and implies(len(self._children) + len(self._volatile_children) > 0, self._activity is not None)", props=["C04", "C05", "C03"])
# S2: once the scope has shut down its own cancel signal is dead (C03a) ...
invariant("Scope", "closed_is_deaf", "implies(not self._interruptable, self._cancel_self._revoked)", props=["C03", "C04"])
# ... and while it is open a scheduled cancel signal is addressed to the owning activity
invariant("Scope", "cancel_goes_to_owner",
          "implies(self._cancel_self.scheduled, self._activity is not None and self._cancel_self.target is self._activity)", props=["C03", "C05"])

contract("usim._primitives.context.Scope.__cancel__", allocates=False,
         params={"self": REF("Scope")},
         requires=["implies(self._interruptable, self._activity is not None)", "self._cancel_self is not None"],
         ensures=["implies(old(self._interruptable), loop._pending == old(loop._pending) + [Activation(self._activity, self._cancel_self)] "
                  "        and self._cancel_self.scheduled and self._cancel_self.due == loop.time)",
                  "implies(not old(self._interruptable), loop._pending == old(loop._pending) and self._cancel_self.scheduled == old(self._cancel_self.scheduled))"],
         modifies=["Loop._pending@loop", "Interrupt.scheduled@self._cancel_self", "Interrupt.target@self._cancel_self", "Interrupt.due@self._cancel_self"],
         inline=True, no_invariants=True,
         props=["C05", "C03"])

contract("usim._primitives.context.Scope.__child_finished__", allocates=False,
         params={"self": REF("Scope"), "child": REF("Task"), "failed": BOOL},
         requires=["child.parent is self", "child.linked and not child.reported",
                   "implies(failed, child._result is not None and child._result[1] is not None)"],
         asserts={1: "internal", 2: "usage"},
         ensures=[
             # failures are recorded once, in order of occurrence, and abort the scope in the same step (C05)
             "implies(failed, self._child_failures == old(self._child_failures) + [child._result[1]])",
             "implies(not failed, self._child_failures == old(self._child_failures) and loop._pending == old(loop._pending))",
             "implies(failed and old(self._interruptable), loop._pending == old(loop._pending) + [Activation(self._activity, self._cancel_self)] "
             "        and self._cancel_self.scheduled)",
             "implies(failed and not old(self._interruptable), loop._pending == old(loop._pending))",
             # exactly this child leaves its list; everything else stays where it is (C04, C06: siblings untouched)
             "implies(child.__volatile__, self._children == old(self._children) and "
             "   exists(int, lambda k: 0 <= k and k < len(old(self._volatile_children)) and old(self._volatile_children)[k] is child and "
             "          self._volatile_children == old(self._volatile_children)[:k] + old(self._volatile_children)[k + 1:]))",
             "implies(not child.__volatile__, self._volatile_children == old(self._volatile_children) and "
             "   exists(int, lambda k: 0 <= k and k < len(old(self._children)) and old(self._children)[k] is child and "
             "          self._children == old(self._children)[:k] + old(self._children)[k + 1:]))",
             "child.reported"],
         ghost_exit=["child.reported = True"],
         modifies=["Scope._child_failures@self", "Scope._children@self", "Scope._volatile_children@self", "Loop._pending@loop",
                   "Interrupt.scheduled@self._cancel_self", "Interrupt.target@self._cancel_self", "Interrupt.due@self._cancel_self",
                   "Task.reported@child", "Task.cpos", "Task.vpos"],
         inv_scope=NS + ["Scope", "Task.in_parent_list", "Task.reported_is_linked"],
         note="called from the task wrapper's tail: the Task invariants about `reported` are re-established by the wrapper before it ends",
         props=["C04", "C05", "C06", "C03"])

# rely: completion is irreversible (Done._value is only ever set to True: scan W1 + Done.__set_done__ contract)
rely("Done", [], "self._value", ensures="self._value", why="Done._value is written only by __set_done__, to True")
rely("Task", ["_result"], "self._result is not None", why="write-once outcome: every assignment to Task._result is guarded by `_result is None`")
rely("Task", [], "self.reported", ensures="self.reported", why="ghost: set once by __child_finished__")
rely("Scope", [], "not self._interruptable", ensures="not self._interruptable", why="_interruptable is only ever set to False")

contract("usim._primitives.context.Scope.__init__",
         params={"self": REF("Scope")},
         ensures=["len(self._children) == 0 and len(self._volatile_children) == 0 and len(self._child_failures) == 0",
                  "self._interruptable", "self._activity is None", "not self._body_done._value",
                  "self._cancel_self.subject is self and not self._cancel_self.scheduled and not self._cancel_self._revoked",
                  "self._cancel_self.sub is None and fresh_obj(self._cancel_self) and fresh_obj(self._body_done)",
                  "len(self._body_done._waiting) == 0 and self._body_done._inverse._event is self._body_done "
                  "and len(self._body_done._inverse._waiting) == 0 and fresh_obj(self._body_done._inverse)",
                  'only_new_changed("CancelScope.subject", "Flag._value", "Flag._inverse", "InverseFlag._event", "Notification._waiting", '
                  '                 "Interrupt.token", "Interrupt.scheduled", "Interrupt._revoked")'],
         modifies=["Scope._children@self", "Scope._volatile_children@self", "Scope._child_failures@self", "Scope._body_done@self",
                   "Scope._interruptable@self", "Scope._activity@self", "Scope._cancel_self@self", "CancelScope.subject", "Flag._value",
                   "Flag._inverse", "InverseFlag._event", "Notification._waiting", "Interrupt.token", "Interrupt.scheduled", "Interrupt._revoked"],
         check_frame=False,
         props=["C04", "C05"])

contract("usim._primitives.context.Scope.do",
         params={"self": REF("Scope"), "payload": ANY, "after": OPT(REAL), "at": OPT(REAL), "volatile": BOOL}, returns=REF("Task"),
         requires=["self._activity is not None",      # usage: tasks are spawned inside the `async with` block
                   "after is None or at is None", "after is None or after >= 0", "at is None or at >= loop.time"],
         asserts={1: "usage", 2: "usage", 3: "usage"},
         # a scope that has ended refuses: the payload is discarded and nothing is registered (C04)
         raises={"ScopeClosed": dict(when="not self._interruptable",
                                     ensures=["self._children == old(self._children)", "self._volatile_children == old(self._volatile_children)",
                                              "loop._pending == old(loop._pending)"])},
         ensures=["fresh_obj(result) and result.parent is self and result.__volatile__ == volatile and result._result is None",
                  "result.payload is payload",
                  "result.__runner__.state == 0 and not result._done._value and result.linked and not result.reported",
                  # C01: the start date reaches the task unconverted (`after=0` / `at=now` mean "in this time step");
                  # a date computed from the caller's date (e.g. at - now) would not be the same float
                  "result.start_at == ite(at is not None and at != old(loop.time), at, None)",
                  "result.start_delay == ite(after is not None and after != 0, after, None)",
                  # registered at the end of the right list, its first activation queued for the current time step
                  "implies(volatile, self._volatile_children == old(self._volatile_children) + [result] and self._children == old(self._children))",
                  "implies(not volatile, self._children == old(self._children) + [result] and self._volatile_children == old(self._volatile_children))",
                  "loop._pending == old(loop._pending) + [Activation(result.__runner__, None)]",
                  "self._child_failures == old(self._child_failures) and self._interruptable",
                  'only_new_changed("Task.start_delay")', 'only_new_changed("Task.start_at")',
                  'only_new_changed("Task.payload")',
                  'only_new_changed("Task.parent")',
                  'only_new_changed("Task.__volatile__")',
                  'only_new_changed("Task._result")',
                  'only_new_changed("Task._cancellations")',
                  'only_new_changed("Task._done")',
                  'only_new_changed("Task.__runner__")',
                  'only_new_changed("Task.linked")',
                  'only_new_changed("Task.reported")',
                  'only_new_changed("coroutine.task")',
                  'only_new_changed("coroutine.state")',
                  'only_new_changed("Done._task")',
                  'only_new_changed("Done._value")',
                  'only_new_changed("Done._inverse")',
                  'only_new_changed("NotDone._done")',
                  'only_new_changed("Notification._waiting")',
                  'only_new_changed("Notification.lock")',
                  'only_new_changed("Notification.queue")'],
         ghost_exit=["result.linked = True"],
         modifies=["Scope._children@self", "Scope._volatile_children@self", "Loop._pending@loop", "Task.cpos", "Task.vpos",
                   "Task.start_delay", "Task.start_at", "Task.payload", "Task.parent", "Task.__volatile__", "Task._result", "Task._cancellations", "Task._done", "Task.__runner__",
                   "Task.linked", "Task.reported", "coroutine.task", "coroutine.state", "Done._task", "Done._value", "Done._inverse",
                   "NotDone._done", "Notification._waiting", "Notification.lock", "Notification.queue"],
         props=["C04", "C01", "C06", "C16"])

# ---------------------------------------------------------------- interrupts of a scope
invariant("InterruptScope", "wellformed",
          "self._notification is not None and self._interrupt is not None and self._interrupt.subject is self "
          "and self._interrupt is not self._cancel_self", props=["C07", "C03"])
# outside [subscription in __aenter__, _disable_interrupts] the until-interrupt is dead (C03a / C07 'no further effect')
invariant("InterruptScope", "interrupt_dead_outside",
          "implies(not self.armed, self._interrupt.sub is None and (self._interrupt._revoked or not self._interrupt.scheduled))",
          props=["C07", "C03"])
# while armed the interrupt is subscribed where the notification keeps its subscribers, addressed to the owning activity
invariant("InterruptScope", "subscribed_while_armed",
          "implies(self.armed, self._activity is not None and self._interruptable and "
          "  ite(isinstance(self._notification, Moment), "
          "      (self._interrupt.sub is None and not self._interrupt.scheduled) or "
          "      (self._interrupt.sub is cast(self._notification, Moment)._transition and self._interrupt.target is self._activity), "
          "      self._interrupt.sub is self._notification and self._interrupt.target is self._activity))", props=["C07", "C03"])

contract("usim._primitives.context.Scope._disable_interrupts",
         params={"self": REF("Scope")},
         ensures=["not self._interruptable", "self._cancel_self._revoked"],
         modifies=["Scope._interruptable@self", "Interrupt._revoked@self._cancel_self"],
         inline=True, no_invariants=True, props=["C03", "C04", "C07"])

contract("usim._primitives.context.InterruptScope._disable_interrupts",
         params={"self": REF("InterruptScope")},
         requires=["self.armed"],
         # both signals of the scope are dead afterwards: the notification has no further effect on the activity (C07)
         ensures=["not self._interruptable", "self._cancel_self._revoked",
                  "self._interrupt.sub is None and (self._interrupt._revoked or not self._interrupt.scheduled)", "not self.armed"],
         ghost_exit=["self.armed = False"],
         modifies=["Scope._interruptable@self", "InterruptScope.armed@self", "Interrupt._revoked", "Interrupt.sub@self._interrupt",
                   "Notification._waiting", "Interrupt.pos"],
         props=["C03", "C07"])

contract("usim._primitives.context.Scope.__aenter__",
         params={"self": REF("Scope")}, returns=REF("Scope"), suspends=(0, 0),
         requires=["loop.activity is me"],
         raises={"RuntimeError": dict(when="self._activity is not None", suspended=False, ensures=["self._activity is old(self._activity)"])},
         ensures=["result is self", "self._activity is me"],
         modifies=["Scope._activity@self"], props=["C04", "C16"])

contract("usim._primitives.context.InterruptScope.__init__",
         params={"self": REF("InterruptScope"), "notification": REF("Notification")},
         ensures=["self._notification is notification", "self._interrupt.subject is self",
                  "not self._interrupt.scheduled and not self._interrupt._revoked and self._interrupt.sub is None",
                  "self._activity is None and self._interruptable", "fresh_obj(self._interrupt)",
                  "len(self._children) == 0 and len(self._volatile_children) == 0 and len(self._child_failures) == 0",
                  "self._cancel_self.subject is self and not self._cancel_self.scheduled and not self._cancel_self._revoked "
                  "and self._cancel_self.sub is None and fresh_obj(self._cancel_self) and fresh_obj(self._body_done) and not self._body_done._value",
                  "len(self._body_done._waiting) == 0 and self._body_done._inverse._event is self._body_done "
                  "and len(self._body_done._inverse._waiting) == 0 and fresh_obj(self._body_done._inverse)",
                  'only_new_changed("CancelScope.subject", "Flag._value", "Flag._inverse", "InverseFlag._event", "Notification._waiting", '
                  '                 "Interrupt.token", "Interrupt.scheduled", "Interrupt._revoked")'],
         modifies=["Scope._children@self", "Scope._volatile_children@self", "Scope._child_failures@self", "Scope._body_done@self",
                   "Scope._interruptable@self", "Scope._activity@self", "Scope._cancel_self@self", "CancelScope.subject", "Flag._value",
                   "Flag._inverse", "InverseFlag._event", "Notification._waiting", "Interrupt.token", "Interrupt.scheduled", "Interrupt._revoked",
                   "InterruptScope._notification@self", "InterruptScope._interrupt@self"],
         check_frame=False, props=["C07"])

contract("usim._primitives.context.InterruptScope.__aenter__",
         params={"self": REF("InterruptScope")}, returns=REF("InterruptScope"), suspends=(0, 0),
         requires=["loop.activity is me", "self._interruptable", "not self.armed", "not self._interrupt._revoked"],
         raises={"RuntimeError": dict(when="self._activity is not None", suspended=False, ensures=["self._activity is old(self._activity)"])},
         # subscribed: the interrupt is parked on the notification, or already on its way if the notification holds now (C07)
         ensures=["result is self", "self._activity is me", "self.armed",
                  "self._interrupt.target is me or (self._interrupt.sub is None and not self._interrupt.scheduled)"],
         ghost_exit=["self.armed = True"],
         modifies=["Scope._activity@self", "InterruptScope.armed@self", "Notification._waiting", "Loop._pending@loop", "Interrupt.sub@self._interrupt", "Interrupt.target@self._interrupt",
                   "Interrupt.pos", "Interrupt.scheduled@self._interrupt", "Interrupt.due@self._interrupt", "Interrupt.immediate@self._interrupt",
                   "After._scheduled", "After.trigger_due", "WaitQueue.qlen@loop._activations", "WaitQueue.qitems@loop._activations"],
         props=["C07", "C03"])

contract("usim._primitives.context.until",
         params={"notification": REF("Notification")}, returns=REF("InterruptScope"),
         ensures=["fresh_obj(result) and result._notification is notification and result._activity is None and result._interruptable",
                  'only_new_changed("CancelScope.subject", "Flag._value", "Flag._inverse", "InverseFlag._event", "Notification._waiting", '
                  '                 "Interrupt.token", "Interrupt.scheduled", "Interrupt._revoked", "Scope._children", "Scope._interruptable")'],
         modifies=["Scope._children", "Scope._volatile_children", "Scope._child_failures", "Scope._body_done",
                   "Scope._interruptable", "Scope._activity", "Scope._cancel_self", "CancelScope.subject", "Flag._value",
                   "Flag._inverse", "InverseFlag._event", "Notification._waiting", "Interrupt.token", "Interrupt.scheduled", "Interrupt._revoked",
                   "InterruptScope._notification", "InterruptScope._interrupt"],
         check_frame=False, props=["C07"])

# ---------------------------------------------------------------- shutting a scope down (C04)
# a task whose outcome is stored but which is not done yet is a started runner that is being closed further up the stack
invariant("Task", "result_without_done_is_closing",
          "implies(self._result is not None and not self._done._value, self.__runner__.state == 1 and not self.reported)", props=["C04", "C06"])
# once a scope has shut down nothing new is registered (do() refuses): the child lists only shrink
rely("Scope", [], "not self._interruptable",
     ensures="forall(self._children, lambda t: exists(old(self._children), lambda u: u is t)) and "
             "forall(self._volatile_children, lambda t: exists(old(self._volatile_children), lambda u: u is t))",
     why="Scope.do raises ScopeClosed when not _interruptable; __child_finished__ only removes")
rely("coroutine", [], "True", ensures="self.state >= old(self.state)", why="a coroutine never returns to an earlier state of its life cycle")
# "finished": the outcome is stored for good (write-once); by Task.result_without_done_is_closing such a task is done, or it
# is a started runner that is being closed further up the call stack (re-entrant close)
DONE_OR_CLOSING = "(t._result is not None)"

contract("usim._primitives.context.Scope._close_children",
         params={"self": REF("Scope")},
         requires=["not self._interruptable"],
         # every non-volatile child is done afterwards (closed now if it was still running)
         ensures=["forall(self._children, lambda t: %s)" % DONE_OR_CLOSING, "not self._interruptable"],
         loop_invariants={"for#1": [
             "not self._interruptable",
             "forall(int, lambda j: implies(0 <= j and j < _i, %s))" % DONE_OR_CLOSING.replace("t.", "at_loop_entry(self._children)[j]."),
             "forall(self._children, lambda t: exists(at_loop_entry(self._children), lambda u: u is t))"]},
         modifies=[], check_frame=False, havoc_all=True,
         props=["C04"])

contract("usim._primitives.context.Scope._close_volatile",
         params={"self": REF("Scope")},
         requires=["not self._interruptable"],
         ensures=["forall(self._volatile_children, lambda t: %s)" % DONE_OR_CLOSING, "not self._interruptable"],
         loop_invariants={"for#1": [
             "not self._interruptable",
             "forall(int, lambda j: implies(0 <= j and j < _i, %s))" % DONE_OR_CLOSING.replace("t.", "at_loop_entry(self._volatile_children)[j]."),
             "forall(self._volatile_children, lambda t: exists(at_loop_entry(self._volatile_children), lambda u: u is t))"]},
         modifies=[], check_frame=False, havoc_all=True,
         props=["C04"])

rely("InterruptScope", [], "not self.armed and self._activity is not None", ensures="not self.armed",
     why="only __aenter__ arms a scope, and it refuses a scope that has been entered before")
rely("Scope", ["_activity"], "self._activity is not None", why="_activity is assigned once, in __aenter__")
rely("Scope", ["_interruptable"], "self._activity is me and self._interruptable",
     why="scan W: `_interruptable = False` only happens in Scope._disable_interrupts, which only the scope's own __aexit__ calls "
         "(run by the owning activity)", suspension_only=True)
rely("InterruptScope", [], "self.armed and self._activity is me", ensures="self.armed",
     why="only the owning activity's _disable_interrupts disarms its scope")
FINISHED = "forall(self._children, lambda t: t._result is not None) and forall(self._volatile_children, lambda t: t._result is not None)"

contract("usim._primitives.context.Scope._close_scope",
         params={"self": REF("Scope")},
         requires=["implies(isinstance(self, InterruptScope), cast(self, InterruptScope).armed)", "self._activity is not None"],
         # order: deaf first (no new children, own signals dead), then the non-volatile, then the volatile children
         ensures=["not self._interruptable", "self._cancel_self._revoked", FINISHED,
                  "implies(isinstance(self, InterruptScope), not cast(self, InterruptScope).armed)"],
         modifies=[], check_frame=False, havoc_all=True,
         props=["C04", "C03", "C07"])

contract("usim._primitives.context.Scope._await_children",
         params={"self": REF("Scope")},
         requires=["loop.activity is me"],
         suspends=(0, None),
         # graceful shutdown: returns only when no non-volatile child is left, however late it was spawned
         ensures=["len(self._children) == 0", "loop.activity is me"],
         on_signal=["loop.activity is me"], on_close=[],
         on_exit=[DEAD_NEW],
         loop_invariants={"while#1": ["loop.activity is me"], "for#1": ["loop.activity is me"]},
         props=["C04", "C20"])

contract("usim._primitives.context.Scope.__await__",
         params={"self": REF("Scope")}, returns=BOOL, suspends=(1, None),
         requires=["loop.activity is me"],
         ensures=["self._body_done._value", "loop.activity is me"],
         on_signal=["loop.activity is me"], on_close=[], on_exit=[DEAD_NEW],
         props=["C20"])

contract("usim._primitives.context.Scope.__aexit__",
         params={"self": REF("Scope"), "exc_type": OPT(ANY), "exc_val": OPT(REF("BaseException")), "exc_tb": OPT(ANY)}, returns=BOOL,
         # (a forceful close runs the block's exit inside whoever called .close(): no claim about loop.activity then)
         requires=["implies(exc_val is None or not is_a(exc_val, GeneratorExit), loop.activity is me)",
                   "self._activity is me", "self._interruptable",
                   "implies(isinstance(self, InterruptScope), cast(self, InterruptScope).armed)",
                   "implies(exc_type is None, exc_val is None)", "implies(exc_val is not None, typeof(exc_val) is exc_type)",
                   "implies(exc_type is not None, exc_val is not None)",
                   "not isinstance(self, EnvironmentScope)"],
         suspends=(0, None),
         # C04: however the block is left, the scope is shut down and every task started in it has its final outcome;
         # own signals are dead (C03a); on the graceful path every non-volatile child finished by itself
         on_exit=[DEAD_NEW, "not self._interruptable", "self._cancel_self._revoked", FINISHED,
                  "implies(isinstance(self, InterruptScope), not cast(self, InterruptScope).armed)"],
         ensures=[
             # C20: leaving a block normally always yields to the other activities first
             "implies(exc_type is None, suspensions() >= 1)",
             "implies(exc_val is None or not is_a(exc_val, GeneratorExit), loop.activity is me)",
             # returns True (swallow) exactly for the scope's own signals when no child failure has to be reported
             "implies(exc_type is not None, result == (exc_val is self._cancel_self or "
             "        (isinstance(self, InterruptScope) and exc_val is cast(self, InterruptScope)._interrupt)))"],
         raises={"BaseException": dict(ensures=["True"])},
         on_signal=[], on_close=[],
         props=["C04", "C05", "C07", "C03", "C20", "C16"])
