"""K6/K7: postpone, suspend, Notification (subscription protocol)."""
from pyvc.dsl import *

SUB = TUP(ANY, REF("Interrupt"))     # (waiter, interrupt)

model("Notification", module="usim._primitives.notification",
      fields={"_waiting": LIST(SUB)},
      # ghost bookkeeping: Interrupt.pos of every parked interrupt follows its index (append / pop / remove)
      elem_hooks={"_waiting": {"pos": "Interrupt.pos", "component": 1, "owner": "Interrupt.sub"}})

owner_stable("Interrupt", ["sub", "_revoked", "token", "immediate"],
             why="scan W8: revoke()/__subscribe__/__unsubscribe__ are only applied by the activity that owns the interrupt")
owner_stable("Interrupt", ["due"], when="scheduled",
             why="K2: due is written by Loop.schedule only, and every interrupt is scheduled at most once")
owner_stable("Interrupt", ["target"], when="scheduled|sub",
             why="K2/K7: target is written by schedule/__subscribe__ only, always with the subscribed waiter")
monotone("Interrupt", ["scheduled"], why="scan W1: `scheduled` is only ever assigned True")
owner_stable("Interrupt", ["scheduled"], when="self.sub is None and not self.scheduled",
             why="an interrupt that is neither subscribed nor scheduled is known to its creator only")

invariant("Notification", "waiting_wf",
          "forall(self._waiting, lambda w: w[0] is not None and w[1] is not None and w[1].sub is self "
          "       and not w[1].scheduled and not w[1]._revoked and w[1].target is w[0])",
          props=["C03", "C09", "C10"])
invariant("Notification", "waiting_pos",
          "forall(int, lambda k: implies(0 <= k and k < len(self._waiting), self._waiting[k][1].pos == k))",
          props=["C03", "C09", "C10"])
invariant("Interrupt", "parked_or_scheduled",
          "implies(self.sub is not None and not self.scheduled, "
          "        0 <= self.pos and self.pos < len(self.sub._waiting) and self.sub._waiting[self.pos] == (self.target, self))",
          props=["C03"])

contract("usim._primitives.notification.Notification.__init__", inv_scope=["Notification", "Interrupt.parked_or_scheduled"],
         params={"self": REF("Notification")},
         requires=["forall(Interrupt, lambda i: i.sub is not self)"],     # the object is fresh
         ensures=["len(self._waiting) == 0"], modifies=["Notification._waiting@self"], props=["C03"], inline=True)

contract("usim._primitives.notification.Notification.__subscribe__", allocates=False, inv_scope=["Notification", "Interrupt.parked_or_scheduled"],
         params={"self": REF("Notification"), "waiter": ANY, "interrupt": REF("Interrupt")},
         requires=["interrupt.sub is None", "not interrupt.scheduled", "not interrupt._revoked", "waiter is not None"],
         requires_direct=["implies(isinstance(self, After), self.trigger_due)"],
         ensures=["self._waiting == old(self._waiting) + [(waiter, interrupt)]",
                  "interrupt.sub is self and interrupt.target is waiter",
                  "interrupt.scheduled == old(interrupt.scheduled) and interrupt._revoked == old(interrupt._revoked)"],
         ghost_exit=["interrupt.sub = self\ninterrupt.target = waiter"],
         modifies=["Notification._waiting@self", "Interrupt.sub@interrupt", "Interrupt.target@interrupt", "Interrupt.pos@interrupt"],
         props=["C03", "C07", "C09", "C10", "C11", "C02"])

contract("usim._primitives.notification.Notification.__unsubscribe__", allocates=False, inv_scope=["Notification", "Interrupt.parked_or_scheduled"],
         params={"self": REF("Notification"), "waiter": ANY, "interrupt": REF("Interrupt")},
         requires=["interrupt.sub is self", "interrupt.target is waiter"],
         ensures=["interrupt.sub is None",
                  # dead afterwards
                  "interrupt._revoked or not interrupt.scheduled",
                  "implies(old(interrupt.scheduled), interrupt._revoked and self._waiting == old(self._waiting))",
                  "implies(not old(interrupt.scheduled), interrupt._revoked == old(interrupt._revoked) and "
                  "  exists(int, lambda k: 0 <= k and k < len(old(self._waiting)) and old(self._waiting)[k] == (waiter, interrupt) "
                  "         and self._waiting == old(self._waiting)[:k] + old(self._waiting)[k + 1:]))",
                  "interrupt.scheduled == old(interrupt.scheduled)"],
         ghost_exit=["interrupt.sub = None"],
         modifies=["Notification._waiting@self", "Interrupt.sub@interrupt", "Interrupt._revoked@interrupt", "Interrupt.pos"],
         props=["C03", "C07", "C09", "C10", "C11", "C13"])

contract("usim._primitives.notification.Notification.__awake_next__", inv_scope=["Notification", "Interrupt.parked_or_scheduled"],
         params={"self": REF("Notification")}, returns=SUB,
         requires=["True"],
         raises={"NoSubscribers": dict(when="len(self._waiting) == 0",
                                       ensures=["self._waiting == old(self._waiting)", "loop._pending == old(loop._pending)",
                                                'unchanged("Interrupt.scheduled", "Interrupt.target", "Interrupt.due", "Interrupt.pos")'])},
         ensures=["result == old(self._waiting)[0]",
                  "self._waiting == old(self._waiting)[1:]",
                  "loop._pending == old(loop._pending) + [Activation(result[0], result[1])]",
                  "result[1].scheduled and result[1].due == loop.time and result[1].target is result[0]",
                  "loop.time == old(loop.time)"],
         modifies=["Notification._waiting@self", "Loop._pending@loop", "Interrupt.scheduled@self._waiting[0][1]",
                   "Interrupt.target@self._waiting[0][1]", "Interrupt.due@self._waiting[0][1]", "Interrupt.pos"],
         props=["C02", "C09", "C10"])

# ---------------------------------------------------------------- K6: postpone / suspend
DEAD_NEW = "forall_new(Interrupt, lambda i: i.sub is None and (i._revoked or not i.scheduled))"

contract("usim._primitives.notification.postpone",
         inv_scope=["Notification", "Interrupt.parked_or_scheduled"],
         params={},
         requires=["loop.activity is me"],
         asserts={1: "internal"},
         suspends=(1, None),
         ensures=["loop.time == old(loop.time)", "loop.activity is me"],
         on_signal=["loop.activity is me"], on_close=[],
         on_exit=[DEAD_NEW],                  # every exit route: the private wake-up is dead (C03a)
         props=["C01", "C03", "C20"])

contract("usim._primitives.notification.suspend",
         inv_scope=["Notification", "Interrupt.parked_or_scheduled"],
         params={"delay": OPT(REAL), "until": OPT(REAL)},
         requires=["loop.activity is me", "delay is None or until is None",
                   "delay is None or delay > 0", "until is None or until > loop.time"],
         asserts={1: "internal"},
         suspends=(1, None),
         ensures=["implies(delay is not None, loop.time == old(loop.time) + delay)",
                  "implies(delay is None and until is not None, loop.time == until)",
                  "implies(delay is None and until is None, loop.time == old(loop.time))",
                  "loop.activity is me"],
         on_signal=["loop.activity is me"], on_close=[],
         on_exit=[DEAD_NEW],
         props=["C01", "C03", "C20", "C14"])

contract("usim._primitives.notification.Notification.__await__",
         inv_scope=["Notification", "Interrupt.parked_or_scheduled"], inline=True,
         note="callers inline it: the subscription it creates interacts with the invariants of Lock/Queue/Channel/Scope",
         params={"self": REF("Notification")},
         requires=["loop.activity is me"],
         asserts={1: "internal"},
         suspends=(1, None),
         ensures=["loop.activity is me"],
         on_signal=["loop.activity is me"], on_close=[],
         on_exit=[DEAD_NEW],
         props=["C03", "C20", "C07"])

# __awake_all__: wake every waiter in subscription order (C02), leave nobody parked
# effect on the interrupts, as a function of the old state (parked here <=> subscribed here and not yet scheduled)
AWAKE_ALL_EFFECT = [
    "forall(Interrupt, lambda i: i.scheduled == (old(i.scheduled) or old(i.sub) is self))",
    "forall(Interrupt, lambda i: i.due == ite(old(i.sub) is self and not old(i.scheduled), loop.time, old(i.due)))",
    'unchanged("Interrupt.target")']
contract("usim._primitives.notification.Notification.__awake_all__", allocates=False,
         inv_scope=["Notification", "Interrupt.parked_or_scheduled"],
         assume_all=["Interrupt.parked_or_scheduled"],
         params={"self": REF("Notification")}, returns=LIST(SUB),
         ensures=["result == old(self._waiting)", "len(self._waiting) == 0",
                  # pending gets exactly the old waiters, in order, after what was pending
                  "len(loop._pending) == len(old(loop._pending)) + len(old(self._waiting))",
                  "forall(int, lambda k: implies(0 <= k and k < len(old(loop._pending)), loop._pending[k] == old(loop._pending)[k]))",
                  "forall(int, lambda k: implies(0 <= k and k < len(old(self._waiting)), "
                  "       loop._pending[len(old(loop._pending)) + k] == Activation(old(self._waiting)[k][0], old(self._waiting)[k][1])))",
                  "loop.time == old(loop.time)"] + AWAKE_ALL_EFFECT,
         loop_invariants={"for#1": [
             "len(self._waiting) == 0",
             "len(loop._pending) == len(old(loop._pending)) + _i",
             "forall(int, lambda k: implies(0 <= k and k < len(old(loop._pending)), loop._pending[k] == old(loop._pending)[k]))",
             "forall(int, lambda k: implies(0 <= k and k < _i, "
             "       loop._pending[len(old(loop._pending)) + k] == Activation(old(self._waiting)[k][0], old(self._waiting)[k][1])))",
             "loop.time == old(loop.time)", "awoken == old(self._waiting)",
             # frame of the iterations so far
             'unchanged("WaitQueue.qlen", "WaitQueue.qitems", "Interrupt.target", "Interrupt.pos", "Interrupt.sub")', 'unchanged_except("Loop._pending", loop)',
             "forall(Interrupt, lambda i: i.scheduled == (old(i.scheduled) or (old(i.sub) is self and old(i.pos) < _i)))",
             "forall(Interrupt, lambda i: i.due == ite(old(i.sub) is self and not old(i.scheduled) and old(i.pos) < _i, loop.time, old(i.due)))",
         ]},
         modifies=["Notification._waiting@self", "Loop._pending@loop", "Interrupt.scheduled", "Interrupt.target", "Interrupt.due"],
         props=["C02", "C08", "C10", "C11", "C13"])
