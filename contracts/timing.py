"""timing.py: interval / delay (C14), time conditions (C01)."""
from pyvc.dsl import *
from contracts import notification as _n   # noqa: F401

DEAD_NEW = "forall_new(Interrupt, lambda i: i.sub is None and (i._revoked or not i.scheduled))"
NS = ["Notification", "Interrupt.parked_or_scheduled"]

# ---------------------------------------------------------------- C14
contract("usim._primitives.timing.interval",
         params={"period": REAL}, inv_scope=NS,
         requires=["loop.activity is me"],
         suspends=(0, None),
         raises={"ValueError": dict(when="period < 0", suspended=False),
                 # raised exactly when the body run took longer than the period ...
                 "IntervalExceeded": dict(ensures=["loop.time > prev_tick() + period"])},
         # ... otherwise the body is resumed exactly one period after the previous tick (grid start + k*period),
         # receives the current time, and other activities ran in between (also for period 0 / body == period)
         step_ensures=["result == loop.time",
                       "loop.time == prev_tick() + period",                 # tick k = tick k-1 + period, tick 0 = start
                       "step_time() <= prev_tick() + period"],   # no IntervalExceeded: the body was not late
         step_suspends=(1, None),
         loop_invariants={"while#1": ["loop.activity is me", "period >= 0", "last_time == prev_tick()", "last_time <= loop.time", "step_time() == loop.time"]},
         on_signal=[], on_close=[],
         on_exit=[DEAD_NEW],
         props=["C14", "C20"])

contract("usim._primitives.timing.delay",
         params={"period": REAL}, inv_scope=NS,
         requires=["loop.activity is me"],
         suspends=(0, None),
         raises={"ValueError": dict(when="period < 0", suspended=False)},
         # every step pauses exactly `period` after the end of the previous body run
         step_ensures=["result == loop.time", "loop.time == step_time() + period"],
         step_suspends=(1, None),
         loop_invariants={"while#1": ["loop.activity is me", "period > 0", "step_time() == loop.time"],
                          "while#2": ["loop.activity is me", "period == 0", "step_time() == loop.time"]},
         on_signal=[], on_close=[],
         on_exit=[DEAD_NEW],
         props=["C14", "C20"])
