"""timing.py: interval / delay (C14), time conditions (C01)."""
from pyvc.dsl import *
from contracts import notification as _n   # noqa: F401

DEAD_NEW = "forall_new(Interrupt, lambda i: i.sub is None and (i._revoked or not i.scheduled))"
NS = ["Notification", "Interrupt.parked_or_scheduled"]
default_scope(NS + ["After", "Moment", "Delay", "Interrupt.after_wakeup_time", "Condition"])


# ---------------------------------------------------------------- C14
contract("usim._primitives.timing.interval",
         params={"period": REAL}, inv_scope=NS,
         requires=["loop.activity is me"],
         suspends=(0, None),
         raises={"ValueError": dict(when="period < 0", suspended=False),
                 # raised exactly when the body run took longer than the period ...
                 "IntervalExceeded": dict(ensures=["loop.time > prev_tick() + period"])},
         # ... otherwise the body is resumed exactly one period after the previous tick (grid start + k*period),
         # receives the current time, and other activities ran in between (also for period 0 / body == period)
         step_ensures=["result == loop.time",
                       "loop.time == prev_tick() + period",                 # tick k = tick k-1 + period, tick 0 = start
                       "step_time() <= prev_tick() + period"],   # no IntervalExceeded: the body was not late
         step_suspends=(1, None),
         loop_invariants={"while#1": ["loop.activity is me", "period >= 0", "last_time == prev_tick()", "last_time <= loop.time", "step_time() == loop.time"]},
         on_signal=[], on_close=[],
         on_exit=[DEAD_NEW],
         props=["C14", "C20"])

contract("usim._primitives.timing.delay",
         params={"period": REAL}, inv_scope=NS,
         requires=["loop.activity is me"],
         suspends=(0, None),
         raises={"ValueError": dict(when="period < 0", suspended=False)},
         # every step pauses exactly `period` after the end of the previous body run
         step_ensures=["result == loop.time", "loop.time == step_time() + period"],
         step_suspends=(1, None),
         loop_invariants={"while#1": ["loop.activity is me", "period > 0", "step_time() == loop.time"],
                          "while#2": ["loop.activity is me", "period == 0", "step_time() == loop.time"]},
         on_signal=[], on_close=[],
         on_exit=[DEAD_NEW],
         props=["C14", "C20"])

# ---------------------------------------------------------------- C01: time conditions
model("After", module="usim._primitives.timing", fields={"date": REAL, "_scheduled": OPT(BOOL)}, final=["date"],
      ghost={"trigger_due": BOOL})       # ghost: a trigger activation for `date` is queued and has not run yet
model("Before", module="usim._primitives.timing", fields={"date": REAL}, final=["date"])
model("Moment", module="usim._primitives.timing", fields={"date": REAL, "_transition": REF("After")}, final=["date", "_transition"])
model("Eternity", module="usim._primitives.timing", fields={})
model("Instant", module="usim._primitives.timing", fields={})
model("Delay", module="usim._primitives.timing", fields={"duration": REAL}, final=["duration"])

COND = dict(requires=["loop.activity is me"], on_signal=["loop.activity is me"], on_close=[], on_exit=[DEAD_NEW])

contract("usim._primitives.timing.Instant.__await__",
         params={"self": REF("Instant")}, returns=BOOL, inv_scope=NS, suspends=(1, None),
         ensures=["result == True", "loop.time == old(loop.time)", "loop.activity is me"], props=["C01", "C20"], **COND)

contract("usim._primitives.timing.Eternity.__await__",
         params={"self": REF("Eternity")}, returns=BOOL, inv_scope=NS, suspends=(1, None),
         # never completes: there is no normal-completion path at all
         ensures=["False"], props=["C01", "C20"], **COND)

contract("usim._primitives.timing.Before.__await__",
         params={"self": REF("Before")}, returns=BOOL, inv_scope=NS, suspends=(1, None),
         # completes only if the date has not been reached, and then within the same time step
         ensures=["result == True", "old(loop.time) < self.date", "loop.time == old(loop.time)", "loop.activity is me"],
         props=["C01", "C20"], **COND)

# ---- After: `time >= date`
invariant("After", "parked_means_trigger_queued", "implies(len(self._waiting) > 0, self.trigger_due)", props=["C01", "C03"])
invariant("After", "trigger_is_in_the_future", "implies(self.trigger_due, loop.time <= self.date and self._scheduled == True)",
          props=["C01"])
invariant("After", "scheduled_before_date_means_queued",
          "implies(self._scheduled == True and loop.time < self.date, self.trigger_due)", props=["C01"])
invariant("Interrupt", "after_wakeup_time",
          "implies(self.sub is not None and isinstance(self.sub, After) and self.scheduled, "
          "        self.due >= cast(self.sub, After).date and (self.immediate or self.due == cast(self.sub, After).date))", props=["C01"])

# K11 (kernel, K3): a queued trigger for `date` runs before the clock passes `date`, and only it clears the flag
rely("After", [], "True",
     ensures="implies(old(self.trigger_due), (self.trigger_due and loop.time <= self.date) or "
             "                              (not self.trigger_due and loop.time >= self.date)) and "
             "implies(not old(self.trigger_due) and old(loop.time) >= self.date, not self.trigger_due or True)",
     why="K3/K-mono: all activations queued for time t run before the clock moves past t; `_async_trigger` alone ends trigger_due")

contract("usim._primitives.timing.After.__init__",
         params={"self": REF("After"), "date": REAL},
         requires=["forall(Interrupt, lambda i: i.sub is not self)"],
         ensures=["self.date == date", "self._scheduled is None", "len(self._waiting) == 0", "not self.trigger_due"],
         ghost_exit=["self.trigger_due = False"],
         modifies=["After.date@self", "After._scheduled@self", "After.trigger_due@self", "Notification._waiting@self"],
         props=["C01"])

contract("usim._primitives.timing.After.__bool__",
         params={"self": REF("After")}, returns=BOOL, pure=True, inline=True, no_invariants=True,
         ensures=["result == (loop.time >= self.date)"], modifies=[], props=["C01", "C08"])

contract("usim._primitives.timing.After._ensure_trigger",
         params={"self": REF("After")},
         requires=["loop.time < self.date"],
         ensures=["self.trigger_due", "self._scheduled == True", "loop.time == old(loop.time)",
                  "self._waiting == old(self._waiting)", "loop._pending == old(loop._pending)"],
         ghost_exit=["if not old(self._scheduled):\n    self.trigger_due = True"],
         modifies=["After._scheduled@self", "After.trigger_due@self", "WaitQueue.qlen@loop._activations", "WaitQueue.qitems@loop._activations"],
         props=["C01", "C03"])

contract("usim._primitives.timing.After._async_trigger", allocates=False,
         params={"self": REF("After")},
         # K3 delivery facts for the signal-less trigger activation (queued with key `date`)
         assume_entry=["loop.time == self.date", "self.trigger_due"],
         ghost_entry=["self.trigger_due = False"],
         suspends=(0, 0),
         ensures=["len(self._waiting) == 0", "not self.trigger_due"],
         modifies=["After.trigger_due@self", "Notification._waiting@self", "Loop._pending@loop",
                   "Interrupt.scheduled", "Interrupt.target", "Interrupt.due"],
         props=["C01"])

contract("usim._primitives.timing.After.__subscribe__",
         params={"self": REF("After"), "waiter": ANY, "interrupt": REF("Interrupt")},
         requires=["interrupt.sub is None", "not interrupt.scheduled", "not interrupt._revoked", "waiter is not None"],
         ensures=["interrupt.sub is self and interrupt.target is waiter",
                  "interrupt.immediate == (old(loop.time) >= self.date)", "interrupt._revoked == old(interrupt._revoked)",
                  "implies(old(loop.time) >= self.date, interrupt.scheduled and interrupt.due == loop.time)",
                  "implies(old(loop.time) < self.date, not interrupt.scheduled and self.trigger_due "
                  "        and self._waiting == old(self._waiting) + [(waiter, interrupt)])"],
         modifies=["After._scheduled@self", "After.trigger_due@self", "WaitQueue.qlen@loop._activations", "WaitQueue.qitems@loop._activations",
                   "Notification._waiting@self", "Loop._pending@loop", "Interrupt.sub@interrupt", "Interrupt.target@interrupt",
                   "Interrupt.pos@interrupt", "Interrupt.scheduled@interrupt", "Interrupt.due@interrupt", "Interrupt.immediate@interrupt"],
         props=["C01", "C03", "C07"])

contract("usim._primitives.timing.After.__await__",
         params={"self": REF("After")}, returns=BOOL, suspends=(1, None),
         # resumes exactly at `date`, or in the same time step when the date has been reached already
         ensures=["result == True", "loop.time == ite(old(loop.time) >= self.date, old(loop.time), self.date)", "loop.activity is me"],
         asserts={1: "internal"},
         props=["C01", "C20"], **COND)

# ---- Moment: `time == date`
invariant("Moment", "transition", "self._transition is not None and self._transition.date == self.date", props=["C01"])

contract("usim._primitives.timing.Moment.__await__",
         params={"self": REF("Moment")}, returns=BOOL, suspends=(1, None),
         # completes only if the date is not in the past, exactly at the date
         ensures=["result == True", "old(loop.time) <= self.date", "loop.time == self.date", "loop.activity is me"],
         asserts={1: "internal"},
         props=["C01", "C20"], **COND)

contract("usim._primitives.timing.Moment.__subscribe__",
         params={"self": REF("Moment"), "waiter": ANY, "interrupt": REF("Interrupt")},
         requires=["interrupt.sub is None", "not interrupt.scheduled", "not interrupt._revoked", "waiter is not None"],
         ensures=[
             # fires at the date (now, if the date is now) and never once the date has passed
             "implies(old(loop.time) == self.date, interrupt.scheduled and interrupt.due == loop.time)",
             "implies(old(loop.time) < self.date, not interrupt.scheduled and interrupt.sub is self._transition)",
             "implies(old(loop.time) <= self.date, interrupt.sub is self._transition and interrupt.target is waiter)",
             "interrupt._revoked == old(interrupt._revoked)",
             "implies(old(loop.time) > self.date, not interrupt.scheduled and interrupt.sub is None "
             "        and self._transition._waiting == old(self._transition._waiting) and loop._pending == old(loop._pending))"],
         modifies=["After._scheduled@self._transition", "After.trigger_due@self._transition",
                   "WaitQueue.qlen@loop._activations", "WaitQueue.qitems@loop._activations",
                   "Notification._waiting@self._transition", "Loop._pending@loop", "Interrupt.sub@interrupt", "Interrupt.target@interrupt",
                   "Interrupt.pos@interrupt", "Interrupt.scheduled@interrupt", "Interrupt.due@interrupt", "Interrupt.immediate@interrupt"],
         props=["C01", "C03", "C07"])

# ---- Delay: `time + duration`
contract("usim._primitives.timing.Delay.__init__",
         params={"self": REF("Delay"), "duration": REAL},
         requires=["duration > 0", "forall(Interrupt, lambda i: i.sub is not self)"], asserts={1: "usage"},
         ensures=["self.duration == duration", "len(self._waiting) == 0"],
         modifies=["Delay.duration@self", "Notification._waiting@self"], props=["C01"])

invariant("Delay", "positive", "self.duration > 0 and len(self._waiting) == 0 and self.lock is None and self.queue is None", props=["C01"])

contract("usim._primitives.timing.Delay.__subscribe__",
         params={"self": REF("Delay"), "waiter": ANY, "interrupt": REF("Interrupt")},
         requires=["interrupt.sub is None", "not interrupt.scheduled", "not interrupt._revoked", "waiter is not None"],
         ensures=["interrupt.scheduled and interrupt.due == old(loop.time) + self.duration",
                  "interrupt.sub is self and interrupt.target is waiter", "interrupt._revoked == old(interrupt._revoked)",
                  "loop._pending == old(loop._pending)", "len(self._waiting) == 0"],
         ghost_exit=["interrupt.sub = self\ninterrupt.target = waiter"],
         modifies=["WaitQueue.qlen@loop._activations", "WaitQueue.qitems@loop._activations",
                   "Interrupt.sub@interrupt", "Interrupt.target@interrupt", "Interrupt.scheduled@interrupt", "Interrupt.due@interrupt"],
         props=["C01", "C07"])

contract("usim._primitives.timing.Time.__add__",
         params={"self": "singleton:time", "other": REAL}, returns=REF("Notification"),
         requires=["other >= 0"], asserts={1: "usage"},
         ensures=["implies(other == 0, isinstance(result, Instant))",
                  "implies(other > 0, isinstance(result, Delay) and cast(result, Delay).duration == other)"],
         modifies=[], check_frame=False, props=["C01"])

contract("usim._primitives.timing.Moment.__unsubscribe__", allocates=False,
         params={"self": REF("Moment"), "waiter": ANY, "interrupt": REF("Interrupt")},
         requires=["(interrupt.sub is None and not interrupt.scheduled) or "
                   "(interrupt.sub is self._transition and interrupt.target is waiter)"],
         # dead afterwards, whatever happened to the subscription in between
         ensures=["interrupt.sub is None", "interrupt._revoked or not interrupt.scheduled",
                  "forall(self._transition._waiting, lambda w: w[1] is not interrupt)"],
         modifies=["Notification._waiting@self._transition", "Interrupt.sub@interrupt", "Interrupt._revoked@interrupt", "Interrupt.pos"],
         props=["C01", "C03", "C07"])

# ~(time >= d) is (time < d) and vice versa; ~eternity is instant and vice versa (C08)
INVT = dict(chain_ensures=True, check_frame=False, props=["C08"])
contract("usim._primitives.timing.After.__invert__",
         params={"self": REF("After")}, returns=REF("Before"),
         ensures=["exact_class(result, Before)", "result.date == self.date", "bool(result) == (not bool(self))", "forall(Condition, lambda c: implies(not fresh_obj(c), bool(c) == old(bool(c))))"],
         modifies=["Before.date", "Notification._waiting"], **INVT)
contract("usim._primitives.timing.Before.__invert__",
         params={"self": REF("Before")}, returns=REF("After"),
         ensures=["exact_class(result, After)", "result.date == self.date", "bool(result) == (not bool(self))", "forall(Condition, lambda c: implies(not fresh_obj(c), bool(c) == old(bool(c))))"],
         modifies=["After.date", "After._scheduled", "After.trigger_due", "Notification._waiting"], **INVT)
contract("usim._primitives.timing.Eternity.__invert__",
         params={"self": REF("Eternity")}, returns=REF("Instant"),
         ensures=["exact_class(result, Instant)", "bool(result) == (not bool(self))", "forall(Condition, lambda c: implies(not fresh_obj(c), bool(c) == old(bool(c))))"],
         modifies=["Notification._waiting"], **INVT)
contract("usim._primitives.timing.Instant.__invert__",
         params={"self": REF("Instant")}, returns=REF("Eternity"),
         ensures=["exact_class(result, Eternity)", "bool(result) == (not bool(self))", "forall(Condition, lambda c: implies(not fresh_obj(c), bool(c) == old(bool(c))))"],
         modifies=["Notification._waiting"], **INVT)
